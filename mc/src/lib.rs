//! nsmc — bounded-exhaustive model checking harness for ndarray-stats.
pub mod exact;
pub mod explore;
pub mod fl;
pub mod json;
pub mod layouts;
pub mod patterns;
pub mod qelem;
pub mod qoracle;
pub mod report;

pub use explore::{PivotMode, Policy};
pub use report::{guarded, hash_of, Cfg, Local, Report, Tier};
