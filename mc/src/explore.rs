//! E1 — pivot-sequence explorer.
//!
//! The crate under test draws one pivot index per recursion level of its two
//! quickselect routines. With the `verif-hooks` feature every draw is routed
//! through `ndarray_stats::verif_hooks::pivot`, and this module installs a
//! per-thread chooser that answers from a *script*: a prefix of choices to
//! replay followed by the default answer. `explore` is the iterative form of
//! the classic stateless-search loop: run the body, look at the recorded choice
//! points, backtrack to the deepest one that still has an untried alternative,
//! extend the prefix, run again — until no alternative is left. Executions are
//! always run to completion.
use std::cell::RefCell;

#[derive(Clone, Copy, Debug, PartialEq, Eq)]
pub enum Policy {
    First,
    Last,
    Middle,
    /// first element for even lengths, last element for odd lengths (alternating adversary)
    ParityEnds,
    /// second element (index 1; 0 for n = 1)
    Second,
    /// second-to-last element (index n - 2; 0 for n = 1)
    SecondLast,
}

impl Policy {
    pub fn pick(self, n: usize) -> usize {
        match self {
            Policy::First => 0,
            Policy::Last => n - 1,
            Policy::Middle => n / 2,
            Policy::ParityEnds => {
                if n % 2 == 0 {
                    0
                } else {
                    n - 1
                }
            }
            Policy::Second => 1.min(n - 1),
            Policy::SecondLast => n.saturating_sub(2),
        }
    }
    pub const ALL: [Policy; 3] = [Policy::First, Policy::Last, Policy::Middle];
    /// the policies used on long lanes (worst cases for quickselect: depth ~ n)
    pub const ADVERSARIAL: [Policy; 6] = [Policy::First, Policy::Last, Policy::ParityEnds, Policy::Middle, Policy::Second, Policy::SecondLast];
}

#[derive(Clone, Debug, PartialEq)]
pub enum PivotMode {
    /// every pivot sequence
    All,
    /// default answer given by `policy`, at most `bound` choice points deviate
    Bounded { policy: Policy, bound: u32 },
    /// like Bounded, but only the first `depth` choice points of an execution may deviate
    /// (used on long lanes, where a deviation at every one of ~n^2 points would be too many)
    BoundedShallow { policy: Policy, bound: u32, depth: usize },
    /// exactly this sequence of pivot values (replay); beyond its end: middle
    Forced(Vec<usize>),
}

#[derive(Clone, Copy, Debug)]
pub struct Point {
    pub opt: u32,
    pub arity: u32,
    pub value: u32,
}

struct Script {
    active: bool,
    mode: PivotMode,
    prefix: Vec<u32>,
    rec: Vec<Point>,
    error: Option<String>,
    /// largest remainder length a pivot was drawn for in this execution
    nmax: usize,
    /// the execution was cut off by the pivot-draw budget
    runaway: bool,
}

thread_local! {
    static IDLE_DRAWS: std::cell::Cell<u64> = std::cell::Cell::new(0);
    static SCRIPT: RefCell<Script> = RefCell::new(Script {
        active: false,
        mode: PivotMode::All,
        prefix: Vec::new(),
        rec: Vec::new(),
        error: None,
        nmax: 0,
        runaway: false,
    });
    static INSTALLED: RefCell<bool> = RefCell::new(false);
}

fn opt_to_value(mode: &PivotMode, n: usize, opt: u32) -> usize {
    match mode {
        PivotMode::All => opt as usize,
        PivotMode::Bounded { policy, .. } | PivotMode::BoundedShallow { policy, .. } => {
            let d = policy.pick(n);
            if opt == 0 {
                d
            } else {
                let k = (opt - 1) as usize;
                if k < d {
                    k
                } else {
                    k + 1
                }
            }
        }
        PivotMode::Forced(_) => unreachable!(),
    }
}

/// Pivot draws allowed in one execution (the longest legitimate executions, bulk requests on lanes of a
/// few hundred elements under adversarial policies, draw about 10^4).
pub const MAX_DRAWS: usize = 200_000;
pub const RUNAWAY: &str = "pivot-draw budget exceeded (more draws than 4 n^2 + 256 for the largest remainder length n seen): the routine does not terminate under this pivot sequence";

fn chooser(n: usize, drawn: usize) -> usize {
    // the index the routine itself drew from its generator is replaced, but it must have been a valid one
    if drawn >= n {
        panic!("the routine drew the pivot index {} for a remainder of length {}", drawn, n);
    }
    SCRIPT.with(|s| {
        let mut s = s.borrow_mut();
        if !s.active {
            // No exploration in progress: deterministic default (middle element). Guard against a routine
            // that does not terminate under that policy (the counter is reset by every guarded call).
            let idle = IDLE_DRAWS.with(|c| {
                c.set(c.get() + 1);
                c.get()
            });
            if idle > 1_000_000 {
                drop(s);
                panic!("{}", RUNAWAY);
            }
            return n / 2;
        }
        let pos = s.rec.len();
        if n > s.nmax {
            s.nmax = n;
        }
        // a selection of one position on a remainder of length m draws at most m - 1 pivots, a bulk
        // selection at most one per element and requested position: 4 * nmax^2 + 256 is generous
        if pos >= MAX_DRAWS || pos > 256 + 4 * s.nmax * s.nmax {
            s.runaway = true;
            // The routine keeps asking for pivots: under this pivot sequence it does not terminate
            // (e.g. a recursion that does not shrink when the pivot is the maximum). Unwinding from
            // here ends the call; the harness sees a panic of an in-range call.
            drop(s);
            panic!("{}", RUNAWAY);
        }
        if let PivotMode::Forced(vals) = &s.mode {
            let v = if pos < vals.len() { vals[pos] } else { n / 2 };
            if v >= n {
                s.error = Some(format!(
                    "replay divergence: forced pivot {} at point {} but remainder has length {}",
                    v, pos, n
                ));
                s.rec.push(Point { opt: 0, arity: n as u32, value: 0 });
                return 0;
            }
            s.rec.push(Point { opt: v as u32, arity: n as u32, value: v as u32 });
            return v;
        }
        let opt = if pos < s.prefix.len() { s.prefix[pos] } else { 0 };
        if opt as usize >= n {
            s.error = Some(format!(
                "prefix divergence: option {} at point {} but arity is {} (harness does not own all nondeterminism)",
                opt, pos, n
            ));
            s.rec.push(Point { opt: 0, arity: n as u32, value: 0 });
            return 0;
        }
        let v = opt_to_value(&s.mode, n, opt);
        s.rec.push(Point { opt, arity: n as u32, value: v as u32 });
        v
    })
}

/// Installs the scripted chooser on the current thread (idempotent).
pub fn install() {
    INSTALLED.with(|i| {
        if !*i.borrow() {
            ndarray_stats::verif_hooks::set_pivot_chooser(Some(Box::new(chooser)));
            *i.borrow_mut() = true;
        }
    });
}

pub fn begin(mode: &PivotMode, prefix: &[u32]) {
    install();
    SCRIPT.with(|s| {
        let mut s = s.borrow_mut();
        s.active = true;
        s.mode = mode.clone();
        s.prefix.clear();
        s.prefix.extend_from_slice(prefix);
        s.rec.clear();
        s.error = None;
        s.nmax = 0;
        s.runaway = false;
    });
}

/// Resets the pivot-draw counter used outside explorations (called at the start of every guarded call).
pub fn reset_idle_budget() {
    IDLE_DRAWS.with(|c| c.set(0));
}

/// Whether the execution that just ended was cut off by the pivot-draw budget.
pub fn was_runaway() -> bool {
    SCRIPT.with(|s| s.borrow().runaway)
}

/// Leaves exploration mode after a case body was abandoned by a panic.
pub fn abort() {
    SCRIPT.with(|s| {
        let mut s = s.borrow_mut();
        s.active = false;
        s.rec.clear();
        s.error = None;
    });
}

pub fn end() -> (Vec<Point>, Option<String>) {
    SCRIPT.with(|s| {
        let mut s = s.borrow_mut();
        s.active = false;
        (std::mem::take(&mut s.rec), s.error.take())
    })
}

/// Pivot values answered so far in the current (or just finished) execution.
pub fn current_pivots() -> Vec<usize> {
    SCRIPT.with(|s| s.borrow().rec.iter().map(|p| p.value as usize).collect())
}

/// Computes the next prefix in depth-first order, or None when the tree is exhausted.
/// Returns (prefix, index of the choice point that changed).
pub fn next_prefix(mode: &PivotMode, rec: &[Point]) -> Option<(Vec<u32>, usize)> {
    let (bound, max_i) = match mode {
        PivotMode::All => (None, usize::MAX),
        PivotMode::Bounded { bound, .. } => (Some(*bound), usize::MAX),
        PivotMode::BoundedShallow { bound, depth, .. } => (Some(*bound), *depth),
        PivotMode::Forced(_) => return None,
    };
    // deviations before each point
    let mut devs_before = Vec::with_capacity(rec.len());
    let mut d = 0u32;
    for p in rec {
        devs_before.push(d);
        if p.opt > 0 {
            d += 1;
        }
    }
    for i in (0..rec.len().min(max_i)).rev() {
        if rec[i].opt + 1 < rec[i].arity {
            let ok = match bound {
                None => true,
                Some(b) => devs_before[i] + 1 <= b,
            };
            if ok {
                let mut pre: Vec<u32> = rec[..i].iter().map(|p| p.opt).collect();
                pre.push(rec[i].opt + 1);
                return Some((pre, i));
            }
        }
    }
    None
}
