//! Float element abstraction (f64 / f32) and exact reference statistics with forward-error bounds.
use crate::exact::{sum, Rat};
use num_traits::{Float, FromPrimitive};
use std::fmt::Debug;
use std::ops::AddAssign;

pub trait Fl: Float + FromPrimitive + AddAssign + Debug + Send + Sync + std::iter::Sum + 'static {
    const NAME: &'static str;
    /// unit roundoff
    const U: f64;
    /// largest finite value of the type
    const MAXF: f64;
    fn to_f64_(self) -> f64;
    fn of(x: f64) -> Self;
    fn rat(self) -> Rat {
        Rat::from_f64(self.to_f64_())
    }
    fn bits_(self) -> u64;
}
impl Fl for f64 {
    const NAME: &'static str = "f64";
    const U: f64 = 1.1102230246251565e-16;
    const MAXF: f64 = f64::MAX;
    fn to_f64_(self) -> f64 {
        self
    }
    fn of(x: f64) -> f64 {
        x
    }
    fn bits_(self) -> u64 {
        self.to_bits()
    }
}
impl Fl for f32 {
    const NAME: &'static str = "f32";
    const U: f64 = 5.960464477539063e-8;
    const MAXF: f64 = f32::MAX as f64;
    fn to_f64_(self) -> f64 {
        self as f64
    }
    fn of(x: f64) -> f32 {
        x as f32
    }
    fn bits_(self) -> u64 {
        self.to_bits() as u64
    }
}

pub fn rats<T: Fl>(xs: &[T]) -> Vec<Rat> {
    xs.iter().map(|x| x.rat()).collect()
}

pub fn abs_sum(xs: &[Rat]) -> Rat {
    let mut acc = Rat::zero();
    for x in xs {
        acc = &acc + &x.abs();
    }
    acc
}

pub fn mean(xs: &[Rat]) -> Rat {
    &sum(xs.iter()) / &Rat::from_u(xs.len())
}

/// (sum w_i x_i, sum |w_i x_i|)
pub fn weighted_sum(xs: &[Rat], ws: &[Rat]) -> (Rat, Rat) {
    let mut s = Rat::zero();
    let mut a = Rat::zero();
    for (x, w) in xs.iter().zip(ws) {
        let t = x * w;
        a = &a + &t.abs();
        s = &s + &t;
    }
    (s, a)
}

pub fn central_moment(xs: &[Rat], p: u32) -> Rat {
    let m = mean(xs);
    let mut acc = Rat::zero();
    for x in xs {
        acc = &acc + &(x - &m).pow(p);
    }
    &acc / &Rat::from_u(xs.len())
}

/// mean of (|x_i - mean| + delta)^p
pub fn central_moment_abs(xs: &[Rat], p: u32, delta: &Rat) -> Rat {
    let m = mean(xs);
    let mut acc = Rat::zero();
    for x in xs {
        acc = &acc + &(&(x - &m).abs() + delta).pow(p);
    }
    &acc / &Rat::from_u(xs.len())
}

pub struct WVar {
    pub w_total: Rat,
    pub mean: Rat,
    /// S = sum w (x - mean_w)^2
    pub s: Rat,
    /// sum w x^2
    pub swx2: Rat,
}

pub fn weighted_var_parts(xs: &[Rat], ws: &[Rat]) -> WVar {
    let w_total = sum(ws.iter());
    let (swx, _) = weighted_sum(xs, ws);
    let mean = &swx / &w_total;
    let mut s = Rat::zero();
    let mut swx2 = Rat::zero();
    for (x, w) in xs.iter().zip(ws) {
        let d = x - &mean;
        s = &s + &(w * &(&d * &d));
        swx2 = &swx2 + &(w * &(x * x));
    }
    WVar { w_total, mean, s, swx2 }
}

/// |got - want| as f64 (upper estimate), with want exact
pub fn err_of(got: f64, want: &Rat) -> f64 {
    if !got.is_finite() {
        return f64::INFINITY;
    }
    let d = &Rat::from_f64(got) - want;
    if d.is_zero() {
        return 0.0;
    }
    d.to_f64_up_abs()
}
