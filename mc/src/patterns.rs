//! Input alphabets: weak-order patterns, subsets, q grids, ulp helpers.

/// All weak-order patterns of length n: sequences of ranks whose set of values is exactly
/// {0..k-1} for some k. Any input of length n to comparison-only code behaves like exactly
/// one of these (1, 3, 13, 75, 541, 4683, 47293, 545835 patterns for n = 1..8).
pub fn weak_orders(n: usize) -> Vec<Vec<u8>> {
    let mut out = Vec::new();
    if n == 0 {
        out.push(Vec::new());
        return out;
    }
    fn rec(n: usize, cur: &mut Vec<u8>, used: &mut [u32], out: &mut Vec<Vec<u8>>) {
        let p = cur.len();
        if p == n {
            out.push(cur.clone());
            return;
        }
        let remaining = n - p;
        for v in 0..n as u8 {
            // choose v; afterwards all values below max(used) that are missing must be fillable
            used[v as usize] += 1;
            cur.push(v);
            let maxv = (0..n).rev().find(|&x| used[x] > 0).unwrap();
            let missing = (0..maxv).filter(|&x| used[x] == 0).count();
            if missing <= remaining - 1 {
                rec(n, cur, used, out);
            }
            cur.pop();
            used[v as usize] -= 1;
        }
    }
    let mut used = vec![0u32; n];
    rec(n, &mut Vec::new(), &mut used, &mut out);
    out
}

/// All sequences of length n over an alphabet of size k (as digit vectors).
pub fn sequences(n: usize, k: usize) -> impl Iterator<Item = Vec<u8>> + Send {
    let total = (k as u64).pow(n as u32);
    (0..total).map(move |mut x| {
        let mut v = vec![0u8; n];
        for i in (0..n).rev() {
            v[i] = (x % k as u64) as u8;
            x /= k as u64;
        }
        v
    })
}

pub fn next_up(x: f64) -> f64 {
    if x.is_nan() || x == f64::INFINITY {
        return x;
    }
    if x == 0.0 {
        return f64::from_bits(1);
    }
    let b = x.to_bits();
    if x > 0.0 {
        f64::from_bits(b + 1)
    } else {
        f64::from_bits(b - 1)
    }
}

pub fn next_down(x: f64) -> f64 {
    -next_up(-x)
}

pub fn ulp(x: f64) -> f64 {
    let a = x.abs();
    if a == 0.0 {
        return f64::from_bits(1);
    }
    next_up(a) - a
}

pub fn ulp32(x: f32) -> f32 {
    let a = x.abs();
    if a == 0.0 {
        return f32::from_bits(1);
    }
    f32::from_bits(a.to_bits() + 1) - a
}

/// The q grid for lane length n: 0, 1, their inward neighbours, and for every k/(2(n-1))
/// (index boundaries and .5 fractions) the value and its +-1 and +-2 ulp neighbours, all
/// clipped to [0,1], sorted and de-duplicated. For n == 1 a small fixed grid.
pub fn q_grid(n: usize) -> Vec<f64> {
    let mut v = vec![0.0, 1.0, next_up(0.0), next_down(1.0), 0.5, 0.25, 0.75, 0.1, 1.0 / 3.0];
    if n >= 2 {
        let d = 2 * (n - 1);
        for k in 0..=d {
            let q = k as f64 / d as f64;
            let mut lo = q;
            let mut hi = q;
            v.push(q);
            for _ in 0..2 {
                lo = next_down(lo);
                hi = next_up(hi);
                v.push(lo);
                v.push(hi);
            }
        }
        // quarter points between boundaries (interior fractions .25/.75)
        for k in 0..(2 * d) {
            v.push((2 * k + 1) as f64 / (4 * (n - 1)) as f64);
        }
    }
    v.retain(|q| *q >= 0.0 && *q <= 1.0);
    v.sort_by(|a, b| a.partial_cmp(b).unwrap());
    v.dedup();
    v
}

/// A reduced q grid (used where the full grid would multiply a large layout space).
pub fn q_grid_small(n: usize) -> Vec<f64> {
    let mut v = vec![0.0, 1.0, 0.5, 0.3, next_down(1.0)];
    if n >= 2 {
        let d = n - 1;
        for k in 0..=d {
            let q = k as f64 / d as f64;
            v.push(q);
            v.push(next_down(q));
            v.push(next_up(q));
        }
        v.push(1.0 / (2 * d) as f64);
    }
    v.retain(|q| *q >= 0.0 && *q <= 1.0);
    v.sort_by(|a, b| a.partial_cmp(b).unwrap());
    v.dedup();
    v
}

/// Lengths for size sweeps: every n up to `dense`, then the neighbourhoods of typical block /
/// unrolling / bitmask thresholds (2^k - 1, 2^k, 2^k + 1, 3*2^k and +-1, multiples of 100) up to `max`.
pub fn sizes(dense: usize, max: usize) -> Vec<usize> {
    let mut v: Vec<usize> = (0..=dense.min(max)).collect();
    let mut p = 8usize;
    while p <= max * 2 {
        for c in [p - 1, p, p + 1, 3 * p / 2 - 1, 3 * p / 2, 3 * p / 2 + 1] {
            if c <= max {
                v.push(c);
            }
        }
        p *= 2;
    }
    let mut h = 100;
    while h <= max {
        v.push(h);
        h += if h < 1000 { 100 } else { 1000 };
    }
    v.sort();
    v.dedup();
    v
}

/// All permutations of 0..n.
pub fn permutations(n: usize) -> Vec<Vec<usize>> {
    let mut out = Vec::new();
    fn rec(n: usize, cur: &mut Vec<usize>, used: &mut Vec<bool>, out: &mut Vec<Vec<usize>>) {
        if cur.len() == n {
            out.push(cur.clone());
            return;
        }
        for i in 0..n {
            if !used[i] {
                used[i] = true;
                cur.push(i);
                rec(n, cur, used, out);
                cur.pop();
                used[i] = false;
            }
        }
    }
    rec(n, &mut Vec::new(), &mut vec![false; n], &mut out);
    out
}

#[cfg(test)]
mod tests {
    use super::*;
    #[test]
    fn fubini() {
        let want = [1usize, 1, 3, 13, 75, 541, 4683, 47293];
        for n in 0..8 {
            assert_eq!(weak_orders(n).len(), want[n], "n={}", n);
        }
    }
}
