//! Exact rational arithmetic over BigInt for the floating-point oracles. Every finite float
//! is a dyadic rational, so inputs convert exactly; results convert back with <= 1 ulp error.
use num_bigint::{BigInt, Sign};
use num_integer::Integer;
use num_traits::{One, Signed, ToPrimitive, Zero};
use std::cmp::Ordering;
use std::ops::{Add, Div, Mul, Neg, Sub};

#[derive(Clone, Debug, PartialEq, Eq)]
pub struct Rat {
    pub n: BigInt,
    pub d: BigInt, // > 0
}

impl Rat {
    pub fn new(n: BigInt, d: BigInt) -> Rat {
        assert!(!d.is_zero(), "zero denominator");
        let (mut n, mut d) = if d.is_negative() { (-n, -d) } else { (n, d) };
        let g = n.gcd(&d);
        if !g.is_one() && !g.is_zero() {
            n = n / &g;
            d = d / &g;
        }
        Rat { n, d }
    }
    pub fn zero() -> Rat {
        Rat { n: BigInt::zero(), d: BigInt::one() }
    }
    pub fn one() -> Rat {
        Rat { n: BigInt::one(), d: BigInt::one() }
    }
    pub fn from_i(i: i128) -> Rat {
        Rat { n: BigInt::from(i), d: BigInt::one() }
    }
    pub fn from_u(i: usize) -> Rat {
        Rat { n: BigInt::from(i), d: BigInt::one() }
    }
    pub fn from_big(n: BigInt) -> Rat {
        Rat { n, d: BigInt::one() }
    }
    /// exact value of a finite f64
    pub fn from_f64(x: f64) -> Rat {
        assert!(x.is_finite(), "Rat::from_f64({})", x);
        if x == 0.0 {
            return Rat::zero();
        }
        let bits = x.to_bits();
        let sign = if bits >> 63 == 1 { -1i64 } else { 1 };
        let e = ((bits >> 52) & 0x7ff) as i64;
        let m = bits & ((1u64 << 52) - 1);
        let (mant, exp) = if e == 0 { (m, -1074i64) } else { (m | (1u64 << 52), e - 1075) };
        let mut n = BigInt::from(mant) * BigInt::from(sign);
        let mut d = BigInt::one();
        if exp >= 0 {
            n <<= exp as usize;
        } else {
            d <<= (-exp) as usize;
        }
        Rat::new(n, d)
    }
    pub fn from_f32(x: f32) -> Rat {
        Rat::from_f64(x as f64)
    }
    pub fn is_zero(&self) -> bool {
        self.n.is_zero()
    }
    pub fn is_negative(&self) -> bool {
        self.n.is_negative()
    }
    pub fn abs(&self) -> Rat {
        Rat { n: self.n.abs(), d: self.d.clone() }
    }
    pub fn recip(&self) -> Rat {
        Rat::new(self.d.clone(), self.n.clone())
    }
    pub fn pow(&self, p: u32) -> Rat {
        Rat { n: num_traits::pow(self.n.clone(), p as usize), d: num_traits::pow(self.d.clone(), p as usize) }
    }
    /// nearest-ish f64 (error <= 1 ulp; exact when representable)
    pub fn to_f64(&self) -> f64 {
        if self.n.is_zero() {
            return 0.0;
        }
        let neg = self.n.is_negative();
        let n = self.n.abs();
        let nb = n.bits() as i64;
        let db = self.d.bits() as i64;
        // scale so that the quotient has about 64 significant bits
        let shift = 64 - (nb - db);
        let q = if shift >= 0 { (n << shift as usize) / &self.d } else { n / (&self.d << (-shift) as usize) };
        // q * 2^-shift ; q has <= 65 bits: take the top 64 into a u64 and let the cast round
        let qb = q.bits() as i64;
        let extra = (qb - 64).max(0);
        let top: u64 = (q >> extra as usize).to_u64().unwrap();
        let v = ldexp(top as f64, (extra - shift) as i32);
        if neg {
            -v
        } else {
            v
        }
    }
    pub fn to_f64_up_abs(&self) -> f64 {
        // an f64 that is >= |self| (used for error bounds)
        let v = self.abs().to_f64();
        // upper estimate: a few ulps above the rounded value (plus the smallest subnormal so that it is
        // strictly above for tiny values)
        v * (1.0 + 4.0 * f64::EPSILON) + f64::from_bits(4)
    }
    pub fn floor(&self) -> BigInt {
        self.n.div_floor(&self.d)
    }
    pub fn ceil(&self) -> BigInt {
        -((-&self.n).div_floor(&self.d))
    }
    pub fn max(a: Rat, b: Rat) -> Rat {
        if a >= b {
            a
        } else {
            b
        }
    }
    /// square root as f64 with relative error <= 4 ulp (via f64 sqrt of the rounded value)
    pub fn sqrt_f64(&self) -> f64 {
        self.to_f64().sqrt()
    }
}

pub fn ldexp(x: f64, e: i32) -> f64 {
    let mut e = e;
    let mut v = x;
    while e > 1000 {
        v *= 2f64.powi(1000);
        e -= 1000;
    }
    while e < -1000 {
        v *= 2f64.powi(-1000);
        e += 1000;
    }
    v * 2f64.powi(e)
}

pub fn pow2(e: i32) -> f64 {
    // 2^e without overflow/underflow surprises for |e| up to ~2200
    let mut e = e;
    let mut v = 1.0f64;
    while e > 1000 {
        v *= 2f64.powi(1000);
        e -= 1000;
    }
    while e < -1000 {
        v *= 2f64.powi(-1000);
        e += 1000;
    }
    v * 2f64.powi(e)
}

impl PartialOrd for Rat {
    fn partial_cmp(&self, o: &Rat) -> Option<Ordering> {
        Some(self.cmp(o))
    }
}
impl Ord for Rat {
    fn cmp(&self, o: &Rat) -> Ordering {
        (&self.n * &o.d).cmp(&(&o.n * &self.d))
    }
}

impl<'a> Add<&'a Rat> for &'a Rat {
    type Output = Rat;
    fn add(self, o: &Rat) -> Rat {
        if self.d == o.d {
            Rat::new(&self.n + &o.n, self.d.clone())
        } else {
            Rat::new(&self.n * &o.d + &o.n * &self.d, &self.d * &o.d)
        }
    }
}
impl<'a> Sub<&'a Rat> for &'a Rat {
    type Output = Rat;
    fn sub(self, o: &Rat) -> Rat {
        if self.d == o.d {
            Rat::new(&self.n - &o.n, self.d.clone())
        } else {
            Rat::new(&self.n * &o.d - &o.n * &self.d, &self.d * &o.d)
        }
    }
}
impl<'a> Mul<&'a Rat> for &'a Rat {
    type Output = Rat;
    fn mul(self, o: &Rat) -> Rat {
        Rat::new(&self.n * &o.n, &self.d * &o.d)
    }
}
impl<'a> Div<&'a Rat> for &'a Rat {
    type Output = Rat;
    fn div(self, o: &Rat) -> Rat {
        assert!(!o.n.is_zero(), "Rat division by zero");
        Rat::new(&self.n * &o.d, &self.d * &o.n)
    }
}
impl Neg for Rat {
    type Output = Rat;
    fn neg(self) -> Rat {
        Rat { n: -self.n, d: self.d }
    }
}
impl Add for Rat {
    type Output = Rat;
    fn add(self, o: Rat) -> Rat {
        &self + &o
    }
}
impl Sub for Rat {
    type Output = Rat;
    fn sub(self, o: Rat) -> Rat {
        &self - &o
    }
}
impl Mul for Rat {
    type Output = Rat;
    fn mul(self, o: Rat) -> Rat {
        &self * &o
    }
}
impl Div for Rat {
    type Output = Rat;
    fn div(self, o: Rat) -> Rat {
        &self / &o
    }
}

pub fn sum<'a, I: IntoIterator<Item = &'a Rat>>(it: I) -> Rat {
    let mut acc = Rat::zero();
    for x in it {
        acc = &acc + x;
    }
    acc
}

pub fn sign_of(b: &BigInt) -> i32 {
    match b.sign() {
        Sign::Minus => -1,
        Sign::NoSign => 0,
        Sign::Plus => 1,
    }
}

#[cfg(test)]
mod tests {
    use super::*;
    #[test]
    fn roundtrip() {
        for &x in &[0.1, 1.0, -3.5, 1e300, 1e-300, 5e-324, 0.3333333333333333, 123456789.123456789] {
            assert_eq!(Rat::from_f64(x).to_f64(), x);
        }
        let third = Rat::new(BigInt::from(1), BigInt::from(3));
        assert!((third.to_f64() - 1.0 / 3.0).abs() <= f64::EPSILON / 4.0);
    }
}
