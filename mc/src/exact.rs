//! placeholder
