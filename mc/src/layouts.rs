//! Memory-layout generator: every logical array is embedded in a sentinel-filled parent
//! allocation and viewed through an axis permutation, per-axis steps (positive, negative,
//! non-unit) and an offset. After a call, every parent cell that is not an element of the
//! view must be unchanged ("guard cells").
use ndarray::prelude::*;
use ndarray::{IxDyn, RawData, Slice};

#[derive(Clone, Debug, PartialEq, Eq, Hash)]
pub struct Layout {
    /// memory order: perm[m] = logical axis stored at memory position m (0 = outermost)
    pub perm: Vec<usize>,
    /// per logical axis: step (1, 2, -1, -2, ...)
    pub steps: Vec<isize>,
    /// padding cells before and after along every axis
    pub pad: usize,
}

impl Layout {
    pub fn c_order(d: usize) -> Layout {
        Layout { perm: (0..d).collect(), steps: vec![1; d], pad: 0 }
    }
    pub fn f_order(d: usize) -> Layout {
        Layout { perm: (0..d).rev().collect(), steps: vec![1; d], pad: 0 }
    }
    pub fn is_plain(&self) -> bool {
        self.pad == 0 && self.steps.iter().all(|&s| s == 1)
    }
}

/// All layouts for d dimensions: every axis permutation x every step vector over `steps`
/// with padding 1 (offset into the parent), plus, for step vectors of magnitude 1, the same
/// with padding 0 (so that contiguous / reversed-contiguous fast paths are exercised too).
pub fn all_layouts(d: usize, steps: &[isize]) -> Vec<Layout> {
    let perms = crate::patterns::permutations(d);
    let mut out = Vec::new();
    let k = steps.len();
    let total = k.pow(d as u32);
    for perm in &perms {
        for mut x in 0..total {
            let mut st = vec![1isize; d];
            for a in 0..d {
                st[a] = steps[x % k];
                x /= k;
            }
            out.push(Layout { perm: perm.clone(), steps: st.clone(), pad: 1 });
            if st.iter().all(|s| s.abs() == 1) {
                out.push(Layout { perm: perm.clone(), steps: st, pad: 0 });
            }
        }
    }
    out
}

/// A covering subset: for every axis permutation, each axis gets each step at least once,
/// but not all combinations (used for 4-D in the quick tier).
pub fn covering_layouts(d: usize, steps: &[isize]) -> Vec<Layout> {
    let perms = crate::patterns::permutations(d);
    let mut out = Vec::new();
    for (pi, perm) in perms.iter().enumerate() {
        for (si, _) in steps.iter().enumerate() {
            let st: Vec<isize> = (0..d).map(|a| steps[(si + a + pi) % steps.len()]).collect();
            out.push(Layout { perm: perm.clone(), steps: st.clone(), pad: 1 });
        }
        out.push(Layout { perm: perm.clone(), steps: vec![1; d], pad: 0 });
    }
    out
}

fn parent_extent(len: usize, step: isize, pad: usize) -> usize {
    if len == 0 {
        2 * pad
    } else {
        2 * pad + (len - 1) * step.unsigned_abs() + 1
    }
}

/// Applies the layout's view transformation to a parent array of any ownership kind.
pub fn apply<S>(mut a: ArrayBase<S, IxDyn>, shape: &[usize], l: &Layout) -> ArrayBase<S, IxDyn>
where
    S: RawData,
{
    let d = shape.len();
    // parent memory axis m holds logical axis perm[m]; we want view axis k = logical axis k
    let mut inv = vec![0usize; d];
    for (m, &k) in l.perm.iter().enumerate() {
        inv[k] = m;
    }
    a = a.permuted_axes(IxDyn(&inv));
    for k in 0..d {
        let st = l.steps[k];
        let span = if shape[k] == 0 { 0 } else { (shape[k] - 1) * st.unsigned_abs() + 1 };
        let sl = Slice::new(l.pad as isize, Some((l.pad + span) as isize), st);
        a.slice_axis_inplace(Axis(k), sl);
    }
    a
}

/// A logical array living inside a sentinel-filled parent. The parent itself is a window
/// into a larger sentinel-filled buffer with `slack` cells on either side (slack = parent
/// size + 8), so that a view rebuilt by the code under test with a wrong stride or offset
/// still lies inside this allocation: such a defect is then observed through the guard
/// cells and value oracles instead of corrupting the heap of the harness.
pub struct Host<T> {
    pub buf: Vec<T>,
    pub slack: usize,
    pub pshape: Vec<usize>,
    pub shape: Vec<usize>,
    pub layout: Layout,
}

impl<T: Clone> Host<T> {
    /// `data` is the logical content in logical C order.
    pub fn new(shape: &[usize], data: &[T], layout: &Layout, sentinel: T) -> Host<T> {
        let d = shape.len();
        assert_eq!(layout.perm.len(), d);
        assert_eq!(data.len(), shape.iter().product::<usize>());
        let pshape: Vec<usize> = (0..d)
            .map(|m| {
                let k = layout.perm[m];
                parent_extent(shape[k], layout.steps[k], layout.pad)
            })
            .collect();
        let psize: usize = pshape.iter().product();
        let slack = psize + 8;
        let buf = vec![sentinel; psize + 2 * slack];
        let mut h = Host { buf, slack, pshape, shape: shape.to_vec(), layout: layout.clone() };
        {
            let mut v = h.view_mut();
            assert_eq!(v.shape(), shape);
            let src = ArrayViewD::from_shape(IxDyn(shape), data).unwrap();
            v.assign(&src);
        }
        h
    }
    fn psize(&self) -> usize {
        self.pshape.iter().product()
    }
    pub fn parent(&self) -> ArrayViewD<'_, T> {
        ArrayViewD::from_shape(IxDyn(&self.pshape), &self.buf[self.slack..self.slack + self.psize()]).unwrap()
    }
    pub fn view(&self) -> ArrayViewD<'_, T> {
        apply(self.parent(), &self.shape, &self.layout)
    }
    pub fn view_mut(&mut self) -> ArrayViewMutD<'_, T> {
        let (shape, layout, pshape) = (self.shape.clone(), self.layout.clone(), self.pshape.clone());
        let (a, b) = (self.slack, self.slack + self.psize());
        let p = ArrayViewMutD::from_shape(IxDyn(&pshape), &mut self.buf[a..b]).unwrap();
        apply(p, &shape, &layout)
    }
    /// Consumes the host and returns an owned array with this (possibly non-standard) layout.
    /// The owned array keeps the whole buffer, slack included, as its allocation (its data
    /// pointer is offset into it), so a wrongly rebuilt view still stays inside the allocation.
    pub fn into_owned_layout(self) -> ArrayD<T> {
        let (a, b) = (self.slack, self.slack + self.psize());
        let whole = Array1::from_vec(self.buf);
        let window = whole.slice_move(ndarray::s![a..b]);
        let parent = window.into_shape_with_order(IxDyn(&self.pshape)).expect("contiguous window reshapes");
        apply(parent, &self.shape, &self.layout)
    }
    /// Offsets (in elements, relative to the start of the buffer) of the view's cells.
    pub fn view_offsets(&self) -> Vec<usize> {
        let base = self.buf.as_ptr() as usize;
        let sz = std::mem::size_of::<T>().max(1);
        self.view().iter().map(|p| (p as *const T as usize - base) / sz).collect()
    }
    /// The whole buffer (slack included) in memory order.
    pub fn memory(&self) -> Vec<T> {
        self.buf.clone()
    }
}

/// Compares two snapshots of the parent memory outside the view's cells.
pub fn guards_intact<T, F: Fn(&T, &T) -> bool>(before: &[T], after: &[T], view_offsets: &[usize], same: F) -> Result<(), usize> {
    let mut in_view = vec![false; before.len()];
    for &o in view_offsets {
        in_view[o] = true;
    }
    for i in 0..before.len() {
        if !in_view[i] && !same(&before[i], &after[i]) {
            return Err(i);
        }
    }
    Ok(())
}

/// 1-D strided host: parent vector with `off` sentinel cells in front and behind, `n`
/// elements at stride `step` (negative = reversed).
pub struct Host1<T> {
    pub parent: Array1<T>,
    pub n: usize,
    pub step: isize,
    pub off: usize,
}

impl<T: Clone> Host1<T> {
    pub fn new(data: &[T], step: isize, off: usize, sentinel: T) -> Host1<T> {
        let n = data.len();
        let span = if n == 0 { 0 } else { (n - 1) * step.unsigned_abs() + 1 };
        // at least span+2 sentinel cells on either side: a view rebuilt with a wrong stride or
        // sign still lies inside this allocation
        let off = off.max(span + 2);
        let parent = Array1::from_elem(2 * off + span, sentinel);
        let mut h = Host1 { parent, n, step, off };
        {
            let mut v = h.view_mut();
            assert_eq!(v.len(), n);
            for (i, x) in data.iter().enumerate() {
                v[i] = x.clone();
            }
        }
        h
    }
    fn span(&self) -> usize {
        if self.n == 0 {
            0
        } else {
            (self.n - 1) * self.step.unsigned_abs() + 1
        }
    }
    pub fn view(&self) -> ArrayView1<'_, T> {
        self.parent.slice_axis(Axis(0), Slice::new(self.off as isize, Some((self.off + self.span()) as isize), self.step))
    }
    pub fn view_mut(&mut self) -> ArrayViewMut1<'_, T> {
        let sl = Slice::new(self.off as isize, Some((self.off + self.span()) as isize), self.step);
        self.parent.slice_axis_mut(Axis(0), sl)
    }
    pub fn view_offsets(&self) -> Vec<usize> {
        let a = self.step.unsigned_abs();
        (0..self.n)
            .map(|i| if self.step > 0 { self.off + i * a } else { self.off + (self.n - 1 - i) * a })
            .collect()
    }
    pub fn memory(&self) -> Vec<T> {
        self.parent.to_vec()
    }
    pub fn logical(&self) -> Vec<T> {
        self.view().to_vec()
    }
}

/// Index tuples of all lanes along `axis` of `shape` (each lane = list of logical C-order
/// flat indexes of its elements, in lane order).
pub fn lanes_flat(shape: &[usize], axis: usize) -> Vec<Vec<usize>> {
    let d = shape.len();
    let total: usize = shape.iter().product();
    if total == 0 {
        // lanes of zero length or zero lanes
        let nlanes: usize = shape.iter().enumerate().filter(|(k, _)| *k != axis).map(|(_, &s)| s).product();
        return vec![Vec::new(); if shape[axis] == 0 { nlanes } else { 0 }];
    }
    let mut strides = vec![1usize; d];
    for k in (0..d.saturating_sub(1)).rev() {
        strides[k] = strides[k + 1] * shape[k + 1];
    }
    let mut lanes = Vec::new();
    let other: Vec<usize> = (0..d).filter(|&k| k != axis).collect();
    let nl: usize = other.iter().map(|&k| shape[k]).product();
    for mut li in 0..nl {
        let mut base = 0usize;
        for &k in other.iter().rev() {
            base += (li % shape[k]) * strides[k];
            li /= shape[k];
        }
        lanes.push((0..shape[axis]).map(|i| base + i * strides[axis]).collect());
    }
    lanes
}
