//! Driver plumbing: configuration, parallel case dispatch, per-thread statistics,
//! violation records, replay files, known-findings matching, evidence output.
use crate::explore::{self, PivotMode};
use crate::json::{self, J};
use std::collections::{BTreeMap, HashSet};
use std::hash::{Hash, Hasher};
use std::ops::AddAssign;
use std::panic::{catch_unwind, AssertUnwindSafe};
use std::path::PathBuf;
use std::sync::atomic::{AtomicBool, AtomicU64, Ordering};
use std::sync::{Arc, Mutex};
use std::time::{Duration, Instant};

#[derive(Clone, Copy, Debug, PartialEq, Eq)]
pub enum Tier {
    Quick,
    Thorough,
}

#[derive(Clone, Debug)]
pub struct ReplaySpec {
    pub sub: String,
    pub ordinal: u64,
    pub pivots: Option<Vec<usize>>,
}

#[derive(Clone, Debug)]
pub struct Cfg {
    pub id: String,
    pub tier: Tier,
    pub seed: u64,
    pub profile: String,
    pub out: Option<PathBuf>,
    pub replay: Option<ReplaySpec>,
    pub threads: usize,
    pub verif_dir: PathBuf,
    pub only_sub: Option<String>,
}

impl Cfg {
    pub fn thorough(&self) -> bool {
        self.tier == Tier::Thorough
    }
    /// picks a bound by tier
    pub fn pick<T>(&self, quick: T, thorough: T) -> T {
        if self.thorough() {
            thorough
        } else {
            quick
        }
    }
}

pub fn hash_of<T: Hash + ?Sized>(t: &T) -> u64 {
    #[allow(deprecated)]
    let mut h = std::hash::SipHasher::new_with_keys(0x1234_5678, 0x9abc_def0);
    t.hash(&mut h);
    h.finish()
}

const HASH_CAP: usize = 2_000_000;

#[derive(Default, Clone)]
pub struct Stats {
    pub cases: u64,
    pub nontrivial: u64,
    pub executions: u64,
    pub states: u64,
    pub transitions: u64,
    pub max_depth: u64,
    pub selfchecks: u64,
    pub counters: BTreeMap<String, u64>,
    pub skipped: BTreeMap<String, u64>,
    pub outcomes: HashSet<u64>,
    pub outcomes_capped: bool,
    pub case_hashes: HashSet<u64>,
    pub case_hashes_capped: bool,
    pub max_ratio: BTreeMap<String, f64>,
}

impl Stats {
    pub fn merge(&mut self, o: Stats) {
        self.cases += o.cases;
        self.nontrivial += o.nontrivial;
        self.executions += o.executions;
        self.states += o.states;
        self.transitions += o.transitions;
        self.max_depth = self.max_depth.max(o.max_depth);
        self.selfchecks += o.selfchecks;
        for (k, v) in o.counters {
            *self.counters.entry(k).or_insert(0) += v;
        }
        for (k, v) in o.skipped {
            *self.skipped.entry(k).or_insert(0) += v;
        }
        for (k, v) in o.max_ratio {
            let e = self.max_ratio.entry(k).or_insert(0.0);
            if v > *e {
                *e = v;
            }
        }
        self.outcomes_capped |= o.outcomes_capped;
        for h in o.outcomes {
            if self.outcomes.len() < HASH_CAP {
                self.outcomes.insert(h);
            } else {
                self.outcomes_capped = true;
                break;
            }
        }
        self.case_hashes_capped |= o.case_hashes_capped;
        for h in o.case_hashes {
            if self.case_hashes.len() < HASH_CAP {
                self.case_hashes.insert(h);
            } else {
                self.case_hashes_capped = true;
                break;
            }
        }
    }
}

#[derive(Clone, Debug)]
pub struct Violation {
    pub sub: String,
    pub ordinal: u64,
    pub key: String,
    pub case: String,
    pub detail: String,
    pub pivots: Vec<usize>,
}

/// Per-worker-thread context handed to harness bodies.
pub struct Local {
    pub stats: Stats,
    pub violations: Vec<Violation>,
    pub sub: String,
    pub ordinal: u64,
    pub case_desc: String,
    pub dry: bool,
    pub forced: Option<Vec<usize>>,
    pub verbose: bool,
    exec_counter: u64,
    case_exec: u64,
    pub machinery_error: Option<String>,
    heartbeat: Option<Arc<Heartbeat>>,
    /// property id (for keys recorded by the engine itself)
    id: String,
    /// number of failed checks recorded by this worker (not capped, unlike `violations`)
    fail_count: u64,
    /// of those, the ones whose key is not an open known finding
    unknown_fail_count: u64,
    /// keys of the open known findings of this property
    known_keys: Arc<Vec<String>>,
}

pub struct Heartbeat {
    pub ordinal: AtomicU64,
    pub stamp_ms: AtomicU64,
    pub busy: AtomicBool,
    pub desc: Mutex<String>,
}

const VIOL_CAP: usize = 64;
pub const SELFCHECK_EVERY: u64 = 256;

thread_local! {
    pub static IN_SUBJECT: std::cell::Cell<bool> = std::cell::Cell::new(false);
}

/// Runs `f` (a call into the crate under test) catching unwinds. Panic messages are silenced.
pub fn guarded<R>(f: impl FnOnce() -> R) -> Result<R, String> {
    explore::reset_idle_budget();
    IN_SUBJECT.with(|c| c.set(true));
    let r = catch_unwind(AssertUnwindSafe(f));
    IN_SUBJECT.with(|c| c.set(false));
    r.map_err(|e| {
        if let Some(s) = e.downcast_ref::<&str>() {
            s.to_string()
        } else if let Some(s) = e.downcast_ref::<String>() {
            s.clone()
        } else {
            "<non-string panic>".to_string()
        }
    })
}

thread_local! {
    /// file:line of the last panic on this thread (set by the panic hook)
    pub static LAST_PANIC_AT: std::cell::RefCell<String> = std::cell::RefCell::new(String::new());
}

/// Directory of the crate under test (panics located there are the subject's, not the harness's).
pub fn subject_dir() -> String {
    std::env::var("NSMC_SUBJECT_DIR").unwrap_or_else(|_| "/repo/".to_string())
}

pub fn install_panic_hook() {
    let default = std::panic::take_hook();
    let subject = subject_dir();
    std::panic::set_hook(Box::new(move |info| {
        let at = info.location().map(|l| format!("{}:{}", l.file(), l.line())).unwrap_or_default();
        let in_subject_code = at.starts_with(&subject);
        LAST_PANIC_AT.with(|c| *c.borrow_mut() = at);
        let quiet = IN_SUBJECT.with(|c| c.get());
        if !quiet && !in_subject_code {
            default(info);
        }
    }));
}

impl Local {
    fn new(sub: &str) -> Local {
        explore::install();
        Local {
            stats: Stats::default(),
            violations: Vec::new(),
            sub: sub.to_string(),
            ordinal: 0,
            case_desc: String::new(),
            dry: false,
            forced: None,
            verbose: false,
            exec_counter: 0,
            case_exec: 0,
            machinery_error: None,
            heartbeat: None,
            id: String::new(),
            fail_count: 0,
            unknown_fail_count: 0,
            known_keys: Arc::new(Vec::new()),
        }
    }

    fn selfcheck_due(&self) -> bool {
        // deterministic in (case ordinal, execution index within the case): independent of thread timing
        (self.ordinal.wrapping_mul(31).wrapping_add(self.case_exec)) % SELFCHECK_EVERY == 0
    }

    pub fn count(&mut self, name: &str, n: u64) {
        if !self.dry {
            *self.stats.counters.entry_ref(name) += n;
        }
    }
    pub fn skip(&mut self, reason: &str) {
        if !self.dry {
            *self.stats.skipped.entry_ref(reason) += 1;
        }
    }
    pub fn nontrivial(&mut self, yes: bool) {
        if yes && !self.dry {
            self.stats.nontrivial += 1;
        }
    }
    pub fn ratio(&mut self, name: &str, r: f64) {
        if self.dry || !(r.is_finite()) {
            return;
        }
        match self.stats.max_ratio.get_mut(name) {
            Some(e) => {
                if r > *e {
                    *e = r
                }
            }
            None => {
                self.stats.max_ratio.insert(name.to_string(), r);
            }
        }
    }
    pub fn outcome(&mut self, h: u64) {
        if self.dry {
            return;
        }
        if self.stats.outcomes.len() < HASH_CAP / 16 {
            self.stats.outcomes.insert(h);
        } else {
            self.stats.outcomes_capped = true;
        }
    }

    /// Records a violation of the property for the current case / execution.
    pub fn fail(&mut self, key: &str, detail: impl FnOnce() -> String) {
        if self.dry {
            return;
        }
        *self.stats.counters.entry_ref(&format!("violations:{}", key)) += 1;
        self.fail_count += 1;
        if !self.known_keys.iter().any(|k| k == key) {
            self.unknown_fail_count += 1;
        }
        let per_key = self.violations.iter().filter(|v| v.key == key).count();
        if per_key >= 4 || self.violations.len() >= VIOL_CAP {
            return;
        }
        let v = Violation {
            sub: self.sub.clone(),
            ordinal: self.ordinal,
            key: key.to_string(),
            case: self.case_desc.clone(),
            detail: detail(),
            pivots: explore::current_pivots(),
        };
        if self.verbose {
            eprintln!("  FAIL [{}] {}", v.key, v.detail);
        }
        self.violations.push(v);
    }

    pub fn check(&mut self, ok: bool, key: &str, detail: impl FnOnce() -> String) -> bool {
        if !ok {
            self.fail(key, detail);
        }
        ok
    }

    /// `err <= bound`, where a bound that is not finite (the f64 estimate of the error bound
    /// overflowed: the case is outside the domain in which a tolerance means anything) is
    /// counted as skipped instead of silently accepting every result.
    pub fn within(&mut self, err: f64, bound: f64, key: &str, detail: impl FnOnce() -> String) -> bool {
        if !bound.is_finite() {
            self.skip("error bound not finite (overflowing magnitudes): tolerance check not applied");
            return true;
        }
        self.check(err <= bound, key, detail)
    }

    /// Explores pivot sequences of `body` according to `mode`. The body returns a hash of
    /// everything it observed (used by the determinism self-check and the outcome census).
    pub fn explore<F: FnMut(&mut Local) -> u64>(&mut self, mode: &PivotMode, mut body: F) {
        let mode = match &self.forced {
            Some(p) => PivotMode::Forced(p.clone()),
            None => mode.clone(),
        };
        let mut prefix: Vec<u32> = Vec::new();
        let mut changed_at = 0usize;
        loop {
            explore::begin(&mode, &prefix);
            let fails_before = self.fail_count;
            let h = body(self);
            let (rec, err) = explore::end();
            if let Some(e) = err {
                self.machinery_error = Some(format!("{} (case {})", e, self.case_desc));
                return;
            }
            if explore::was_runaway() {
                // the execution was cut off by the pivot-draw budget: the routine does not terminate under
                // this pivot sequence. The harness saw the call unwind; if its oracle did not count that as
                // a failure, it is recorded here. The rest of this case's choice tree (which hangs below a
                // path of 200000 points) is not explored.
                self.stats.executions += 1;
                self.stats.max_depth = self.stats.max_depth.max(rec.len() as u64);
                if self.fail_count == fails_before {
                    let key = format!("{}/non-termination", self.id);
                    self.fail(&key, || explore::RUNAWAY.to_string());
                }
                *self.stats.counters.entry_ref("executions_cut_off_by_the_pivot_draw_budget") += 1;
                return;
            }
            self.stats.executions += 1;
            self.exec_counter += 1;
            self.case_exec += 1;
            let new_nodes = (rec.len() - changed_at.min(rec.len())) as u64;
            self.stats.states += new_nodes;
            self.stats.transitions += new_nodes;
            self.stats.max_depth = self.stats.max_depth.max(rec.len() as u64);
            if matches!(mode, PivotMode::Bounded { .. } | PivotMode::BoundedShallow { .. }) {
                let d = rec.iter().filter(|p| p.opt > 0).count();
                *self.stats.counters.entry_ref(&format!("executions_with_{}_deviations", d)) += 1;
            }
            self.outcome(h);
            if self.selfcheck_due() || self.verbose {
                // determinism self-check: same choices, same observation
                let vals: Vec<usize> = rec.iter().map(|p| p.value as usize).collect();
                let was_dry = self.dry;
                self.dry = true;
                explore::begin(&PivotMode::Forced(vals.clone()), &[]);
                let h2 = body(self);
                let (rec2, err2) = explore::end();
                self.dry = was_dry;
                self.stats.selfchecks += 1;
                if h2 != h || rec2.len() != rec.len() || err2.is_some() {
                    // The same choices gave another observation. If the crate under test keeps state
                    // between calls, either the first run of this execution already tripped the property's
                    // own oracle, or a third, recorded run (now from a non-initial state) does: that is a
                    // verdict. Otherwise the harness does not own all nondeterminism: machinery error.
                    let nviol = fails_before;
                    if !was_dry {
                        explore::begin(&PivotMode::Forced(vals.clone()), &[]);
                        let _ = body(self);
                        let _ = explore::end();
                    }
                    if self.fail_count > nviol {
                        self.stats.counters.entry_ref("violations_found_on_re_execution_of_the_same_schedule").add_assign(1);
                        return;
                    }
                    self.machinery_error = Some(format!(
                        "determinism self-check failed: sub {} ordinal {} case {} pivots {:?}: observation {:x} then {:x} ({} vs {} choice points){}",
                        self.sub, self.ordinal, self.case_desc, vals, h, h2, rec.len(), rec2.len(),
                        err2.map(|e| format!("; {}", e)).unwrap_or_default()
                    ));
                    return;
                }
            }
            match explore::next_prefix(&mode, &rec) {
                Some((p, i)) => {
                    prefix = p;
                    changed_at = i;
                }
                None => break,
            }
        }
    }

    /// Runs a body that involves no pivot choice as a single execution.
    pub fn single<F: FnMut(&mut Local) -> u64>(&mut self, mut body: F) {
        let fails_before = self.fail_count;
        let h = body(self);
        self.stats.executions += 1;
        // an execution inside a case is a leaf of the choice tree below the case node
        self.stats.states += 1;
        self.stats.transitions += 1;
        self.exec_counter += 1;
        self.case_exec += 1;
        self.outcome(h);
        if self.selfcheck_due() {
            let was_dry = self.dry;
            self.dry = true;
            let h2 = body(self);
            self.dry = was_dry;
            self.stats.selfchecks += 1;
            if h2 != h {
                let nviol = fails_before;
                if !was_dry {
                    let _ = body(self);
                }
                if self.fail_count > nviol {
                    self.stats.counters.entry_ref("violations_found_on_re_execution_of_the_same_schedule").add_assign(1);
                    return;
                }
                self.machinery_error = Some(format!(
                    "determinism self-check failed: sub {} ordinal {} case {}: observation {:x} then {:x}",
                    self.sub, self.ordinal, self.case_desc, h, h2
                ));
            }
        }
    }
}

trait EntryRef {
    fn entry_ref(&mut self, k: &str) -> &mut u64;
}
impl EntryRef for BTreeMap<String, u64> {
    fn entry_ref(&mut self, k: &str) -> &mut u64 {
        if !self.contains_key(k) {
            self.insert(k.to_string(), 0);
        }
        self.get_mut(k).unwrap()
    }
}

pub struct SubReport {
    pub name: String,
    pub bounds: String,
    pub stats: Stats,
    pub samples: Vec<String>,
    pub wall_s: f64,
    pub exhaustive: bool,
    pub caps: Vec<String>,
}

#[derive(Clone, Debug)]
pub struct KnownFinding {
    pub status: String,
    pub property: String,
    pub key: String,
    pub what: String,
}

pub struct Report {
    pub cfg: Cfg,
    pub subs: Vec<SubReport>,
    pub violations: Vec<Violation>,
    pub start: Instant,
    pub assumptions: Vec<String>,
    pub rule: String,
    pub known: Vec<KnownFinding>,
    pub machinery_errors: Vec<String>,
    pub extra: Vec<(String, J)>,
    pub watchdog: Option<Duration>,
    pub skipped_subs: Vec<String>,
    /// number of cases a worker pulls from the enumerator at a time
    pub dispatch_chunk: usize,
}

pub fn parse_args(id: &str) -> Cfg {
    let args: Vec<String> = std::env::args().collect();
    let mut cfg = Cfg {
        id: id.to_string(),
        tier: match std::env::var("VERIF_TIER").ok().as_deref() {
            Some("thorough") => Tier::Thorough,
            _ => Tier::Quick,
        },
        seed: std::env::var("VERIF_SEED").ok().and_then(|s| s.parse().ok()).unwrap_or(0),
        profile: if cfg!(debug_assertions) { "checked".into() } else { "release".into() },
        out: None,
        replay: None,
        threads: std::env::var("NSMC_THREADS")
            .ok()
            .and_then(|s| s.parse().ok())
            .unwrap_or_else(|| std::thread::available_parallelism().map(|n| n.get()).unwrap_or(8)),
        verif_dir: PathBuf::from(std::env::var("NSMC_VERIF_DIR").unwrap_or_else(|_| "/verif".into())),
        only_sub: None,
    };
    let mut i = 1;
    while i < args.len() {
        match args[i].as_str() {
            "--tier" => {
                i += 1;
                cfg.tier = if args[i] == "thorough" { Tier::Thorough } else { Tier::Quick };
            }
            "--out" => {
                i += 1;
                cfg.out = Some(PathBuf::from(&args[i]));
            }
            "--seed" => {
                i += 1;
                cfg.seed = args[i].parse().unwrap_or(0);
            }
            "--threads" => {
                i += 1;
                cfg.threads = args[i].parse().unwrap_or(8);
            }
            "--sub" => {
                i += 1;
                cfg.only_sub = Some(args[i].clone());
            }
            "--replay" => {
                i += 1;
                let text = std::fs::read_to_string(&args[i]).unwrap_or_else(|e| {
                    eprintln!("cannot read replay file {}: {}", args[i], e);
                    std::process::exit(2)
                });
                let j = json::parse(&text).unwrap_or_else(|e| {
                    eprintln!("cannot parse replay file: {}", e);
                    std::process::exit(2)
                });
                let sub = j.get("sub").and_then(|x| x.as_str()).unwrap_or("").to_string();
                let ordinal = j.get("ordinal").and_then(|x| x.as_u64()).unwrap_or(0);
                let pivots = j.get("pivots").and_then(|x| x.as_array()).map(|a| {
                    a.iter().filter_map(|x| x.as_u64()).map(|x| x as usize).collect::<Vec<_>>()
                });
                if let Some(t) = j.get("tier").and_then(|x| x.as_str()) {
                    cfg.tier = if t == "thorough" { Tier::Thorough } else { Tier::Quick };
                }
                cfg.replay = Some(ReplaySpec { sub, ordinal, pivots });
            }
            other => {
                eprintln!("unknown argument {}", other);
                std::process::exit(2);
            }
        }
        i += 1;
    }
    cfg
}

fn load_known(cfg: &Cfg) -> Vec<KnownFinding> {
    let p = cfg.verif_dir.join("known_findings.json");
    let text = match std::fs::read_to_string(&p) {
        Ok(t) => t,
        Err(_) => return Vec::new(),
    };
    let j = match json::parse(&text) {
        Ok(j) => j,
        Err(e) => {
            eprintln!("known_findings.json does not parse: {}", e);
            std::process::exit(2)
        }
    };
    let mut out = Vec::new();
    if let Some(arr) = j.get("findings").and_then(|x| x.as_array()) {
        for f in arr {
            let s = |k: &str| f.get(k).and_then(|x| x.as_str()).unwrap_or("").to_string();
            out.push(KnownFinding { status: s("status"), property: s("property"), key: s("key"), what: s("what") });
        }
    }
    out
}

fn now_ms(start: Instant) -> u64 {
    start.elapsed().as_millis() as u64
}

impl Report {
    pub fn new(id: &str) -> Report {
        install_panic_hook();
        let cfg = parse_args(id);
        let known = load_known(&cfg);
        Report {
            cfg,
            subs: Vec::new(),
            violations: Vec::new(),
            start: Instant::now(),
            assumptions: Vec::new(),
            rule: String::new(),
            known,
            machinery_errors: Vec::new(),
            extra: Vec::new(),
            watchdog: None,
            skipped_subs: Vec::new(),
            dispatch_chunk: 64,
        }
    }

    /// number of recorded violations whose key is not an open known finding
    pub fn unknown_violations(&self) -> usize {
        self.violations
            .iter()
            .filter(|v| !self.known.iter().any(|k| k.status == "open" && k.property == self.cfg.id && k.key == v.key))
            .count()
    }

    pub fn assume(&mut self, s: &str) {
        self.assumptions.push(s.to_string());
    }

    fn sub_enabled(&self, name: &str) -> bool {
        if let Some(r) = &self.cfg.replay {
            return r.sub == name;
        }
        if let Some(s) = &self.cfg.only_sub {
            return s.split(',').any(|x| x == name);
        }
        true
    }

    /// Enumerates `cases` (in a fixed order; the ordinal of a case identifies it for replay)
    /// and runs `f` on each, on `threads` worker threads.
    pub fn run_sub<C, I, F>(&mut self, name: &str, bounds: &str, cases: I, f: F)
    where
        C: Send + std::fmt::Debug,
        I: Iterator<Item = C> + Send,
        F: Fn(&C, &mut Local) + Sync,
    {
        if !self.sub_enabled(name) {
            return;
        }
        if self.unknown_violations() > 0 && self.cfg.replay.is_none() {
            // fail fast: a violated property may mean undefined behaviour further on (C03/C04/C14/C20)
            eprintln!("note: sub-harness {} skipped because an earlier sub-harness already found a violation", name);
            self.skipped_subs.push(name.to_string());
            return;
        }
        let t0 = Instant::now();
        let id = self.cfg.id.clone();
        let id = &id;
        let replay = self.cfg.replay.clone();
        let threads = if replay.is_some() { 1 } else { self.cfg.threads.max(1) };
        let source = Mutex::new((cases, 0u64));
        let merged = Mutex::new((Stats::default(), Vec::<Violation>::new(), Vec::<String>::new(), Vec::<String>::new()));
        let stop = AtomicBool::new(false);
        // once this many failed checks (known findings excluded) have been recorded the verdict cannot
        // change any more: the rest of the sub-harness is not explored (reported as a cap in the evidence)
        const EARLY_STOP: u64 = 2000;
        let unknown_fails = AtomicU64::new(0);
        let stopped_early = AtomicBool::new(false);
        let known_keys: Arc<Vec<String>> = Arc::new(self.known.iter().filter(|k| k.status == "open" && k.property == self.cfg.id).map(|k| k.key.clone()).collect());
        let start = self.start;
        let watchdog = self.watchdog;
        #[allow(non_snake_case)]
        let CHUNK = self.dispatch_chunk.max(1);
        let beats: Vec<Arc<Heartbeat>> = (0..threads)
            .map(|_| {
                Arc::new(Heartbeat {
                    ordinal: AtomicU64::new(u64::MAX),
                    stamp_ms: AtomicU64::new(0),
                    busy: AtomicBool::new(false),
                    desc: Mutex::new(String::new()),
                })
            })
            .collect();
        let done = AtomicBool::new(false);
        let hang: Mutex<Option<(u64, String)>> = Mutex::new(None);
        std::thread::scope(|scope| {
            let mut handles = Vec::new();
            for t in 0..threads {
                let source = &source;
                let merged = &merged;
                let stop = &stop;
                let unknown_fails = &unknown_fails;
                let stopped_early = &stopped_early;
                let known_keys = known_keys.clone();
                let f = &f;
                let replay = &replay;
                let hb = beats[t].clone();
                let name = name.to_string();
                // large stacks: a selection that does not terminate under some pivot sequence recurses until
                // the pivot-draw budget of the explorer stops it (explore.rs), not until the stack overflows
                handles.push(std::thread::Builder::new().stack_size(1 << 30).spawn_scoped(scope, move || {
                    let mut lx = Local::new(&name);
                    lx.known_keys = known_keys;
                    lx.id = id.to_string();
                    let mut reported_fails = 0u64;
                    lx.heartbeat = Some(hb.clone());
                    let mut samples: Vec<String> = Vec::new();
                    let mut buf: Vec<(u64, C)> = Vec::with_capacity(CHUNK);
                    loop {
                        if stop.load(Ordering::Relaxed) {
                            break;
                        }
                        buf.clear();
                        {
                            let mut g = source.lock().unwrap();
                            for _ in 0..CHUNK {
                                match g.0.next() {
                                    Some(c) => {
                                        let o = g.1;
                                        g.1 += 1;
                                        buf.push((o, c));
                                    }
                                    None => break,
                                }
                            }
                        }
                        if buf.is_empty() {
                            break;
                        }
                        for (ord, c) in buf.drain(..) {
                            if let Some(r) = replay {
                                if r.ordinal != ord {
                                    continue;
                                }
                                lx.forced = r.pivots.clone();
                                lx.verbose = true;
                                eprintln!("replaying sub={} ordinal={} case={:?} pivots={:?}", name, ord, c, r.pivots);
                            }
                            lx.ordinal = ord;
                            lx.case_exec = 0;
                            lx.stats.cases += 1;
                            lx.stats.states += 1;
                            lx.stats.transitions += 1;
                            // cheap description only when needed: keep Debug text lazily
                            let need_desc = watchdog.is_some() || replay.is_some();
                            if need_desc {
                                lx.case_desc = format!("{:?}", c);
                                *hb.desc.lock().unwrap() = lx.case_desc.clone();
                            } else {
                                lx.case_desc.clear();
                            }
                            hb.ordinal.store(ord, Ordering::Relaxed);
                            hb.stamp_ms.store(now_ms(start), Ordering::Relaxed);
                            hb.busy.store(true, Ordering::Relaxed);
                            let nviol = lx.violations.len();
                            // A panic that escapes a case body is the harness's own fault (machinery
                            // error) unless it was raised inside the crate under test: a call the
                            // harness had no reason to guard panicked, which is a verdict about the
                            // subject, not a crash of the engine.
                            if let Err(e) = catch_unwind(AssertUnwindSafe(|| f(&c, &mut lx))) {
                                IN_SUBJECT.with(|c| c.set(false));
                                crate::explore::abort();
                                let msg = if let Some(s) = e.downcast_ref::<&str>() {
                                    s.to_string()
                                } else if let Some(s) = e.downcast_ref::<String>() {
                                    s.clone()
                                } else {
                                    "<non-string panic>".to_string()
                                };
                                let at = LAST_PANIC_AT.with(|c| c.borrow().clone());
                                if at.starts_with(&subject_dir()) {
                                    let key = format!("{}/panic", id);
                                    lx.fail(&key, || format!("the crate under test panicked at {} in a call that must not panic: {}", at, msg));
                                } else {
                                    lx.machinery_error = Some(format!("case body panicked at {}: {} (case {:?})", at, msg, c));
                                }
                            }
                            hb.busy.store(false, Ordering::Relaxed);
                            if lx.violations.len() > nviol {
                                let d = format!("{:?}", c);
                                for v in lx.violations[nviol..].iter_mut() {
                                    v.case = d.clone();
                                }
                            }
                            if samples.len() < 2 && (ord % 7919 == 0 || lx.stats.cases == 1) {
                                samples.push(format!("{:?}", c));
                            }
                            if lx.stats.case_hashes.len() < HASH_CAP / 16 {
                                lx.stats.case_hashes.insert(hash_of(&format!("{:?}", c)));
                            } else {
                                lx.stats.case_hashes_capped = true;
                            }
                            if lx.machinery_error.is_some() {
                                stop.store(true, Ordering::Relaxed);
                                break;
                            }
                            if lx.unknown_fail_count > reported_fails {
                                let total = unknown_fails.fetch_add(lx.unknown_fail_count - reported_fails, Ordering::Relaxed) + (lx.unknown_fail_count - reported_fails);
                                reported_fails = lx.unknown_fail_count;
                                if total >= EARLY_STOP && replay.is_none() {
                                    stopped_early.store(true, Ordering::Relaxed);
                                    stop.store(true, Ordering::Relaxed);
                                    break;
                                }
                            }
                        }
                    }
                    let mut g = merged.lock().unwrap();
                    g.0.merge(std::mem::take(&mut lx.stats));
                    g.1.append(&mut lx.violations);
                    g.2.append(&mut samples);
                    if let Some(e) = lx.machinery_error.take() {
                        g.3.push(e);
                    }
                }).expect("cannot spawn a worker thread"));
            }
            // watchdog
            if let Some(limit) = watchdog {
                let beats = &beats;
                let done = &done;
                let hang = &hang;
                scope.spawn(move || {
                    while !done.load(Ordering::Relaxed) {
                        std::thread::sleep(Duration::from_millis(250));
                        let now = now_ms(start);
                        for hb in beats.iter() {
                            if hb.busy.load(Ordering::Relaxed) {
                                let st = hb.stamp_ms.load(Ordering::Relaxed);
                                if now.saturating_sub(st) > limit.as_millis() as u64 {
                                    let ord = hb.ordinal.load(Ordering::Relaxed);
                                    let d = hb.desc.lock().unwrap().clone();
                                    *hang.lock().unwrap() = Some((ord, d));
                                    return;
                                }
                            }
                        }
                    }
                });
                // join workers, but give up if a hang is flagged
                loop {
                    if handles.iter().all(|h| h.is_finished()) {
                        break;
                    }
                    if hang.lock().unwrap().is_some() {
                        break;
                    }
                    std::thread::sleep(Duration::from_millis(50));
                }
                done.store(true, Ordering::Relaxed);
                if let Some((ord, d)) = hang.lock().unwrap().clone() {
                    // cannot kill the stuck thread: report and leave the process
                    self.finish_with_hang(name, ord, &d, limit);
                }
            }
            for h in handles {
                if h.join().is_err() {
                    eprintln!("MACHINERY: worker thread of sub-harness {} panicked", name);
                    std::process::exit(2);
                }
            }
        });
        let (stats, mut viol, samples, errs) = merged.into_inner().unwrap();
        self.violations.append(&mut viol);
        self.machinery_errors.extend(errs);
        self.subs.push(SubReport {
            name: name.to_string(),
            bounds: bounds.to_string(),
            stats,
            samples,
            wall_s: t0.elapsed().as_secs_f64(),
            exhaustive: !stopped_early.load(Ordering::Relaxed),
            caps: if stopped_early.load(Ordering::Relaxed) { vec![format!("stopped early: {} failed checks recorded, the rest of this sub-harness was not explored", unknown_fails.load(Ordering::Relaxed))] } else { Vec::new() },
        });
        if stopped_early.load(Ordering::Relaxed) {
            eprintln!("note: sub-harness {} stopped early after {} failed checks", name, unknown_fails.load(Ordering::Relaxed));
        }
        if !self.machinery_errors.is_empty() {
            for e in &self.machinery_errors {
                eprintln!("MACHINERY: {}", e);
            }
            std::process::exit(2);
        }
    }

    fn finish_with_hang(&mut self, sub: &str, ord: u64, desc: &str, limit: Duration) -> ! {
        self.violations.push(Violation {
            sub: sub.to_string(),
            ordinal: ord,
            key: format!("{}/non-termination", self.cfg.id),
            case: desc.to_string(),
            detail: format!("call did not return within {:?}", limit),
            pivots: vec![],
        });
        self.subs.push(SubReport {
            name: sub.to_string(),
            bounds: "aborted by watchdog".into(),
            stats: {
                let mut s = Stats::default();
                s.cases = 1;
                s.states = 1;
                s.transitions = 1;
                s.executions = 1;
                s
            },
            samples: vec![desc.to_string()],
            wall_s: 0.0,
            exhaustive: false,
            caps: vec!["watchdog abort".into()],
        });
        let code = self.finish_inner();
        std::process::exit(code);
    }

    /// Registers an externally computed sub-report (used by the stateright engine).
    pub fn push_sub(&mut self, sr: SubReport, mut viol: Vec<Violation>) {
        self.violations.append(&mut viol);
        self.subs.push(sr);
    }

    pub fn finish(mut self) -> ! {
        let code = self.finish_inner();
        std::process::exit(code);
    }

    fn finish_inner(&mut self) -> i32 {
        let cfg = self.cfg.clone();
        // order violations deterministically
        self.violations.sort_by(|a, b| (a.sub.clone(), a.ordinal, a.pivots.clone(), a.key.clone()).cmp(&(b.sub.clone(), b.ordinal, b.pivots.clone(), b.key.clone())));
        // classify against known findings
        let mut by_key: BTreeMap<String, Vec<&Violation>> = BTreeMap::new();
        for v in &self.violations {
            by_key.entry(v.key.clone()).or_default().push(v);
        }
        let mut unknown = 0usize;
        let mut known_lines = Vec::new();
        let mut viol_lines = Vec::new();
        let mut total = Stats::default();
        for s in &self.subs {
            total.merge(s.stats.clone());
        }
        for (key, vs) in &by_key {
            let k = self.known.iter().find(|k| k.status == "open" && k.property == cfg.id && &k.key == key);
            let count = total.counters.get(&format!("violations:{}", key)).cloned().unwrap_or(vs.len() as u64);
            if let Some(k) = k {
                known_lines.push(format!("KNOWN-FINDING: property={} {} [{}; {} matching executions in this run; first: {} | {}]", cfg.id, k.what, key, count, vs[0].case, vs[0].detail));
            } else {
                unknown += 1;
                let v = vs[0];
                let path = self.write_replay(v);
                viol_lines.push(format!("VIOLATION property={} replay={}", cfg.id, path.display()));
                eprintln!("violation [{}] x{}: sub={} ordinal={} case={} pivots={:?}\n    {}", key, count, v.sub, v.ordinal, v.case, v.pivots, v.detail);
            }
        }
        for l in &known_lines {
            println!("{}", l);
        }
        for l in &viol_lines {
            println!("{}", l);
        }
        // evidence
        if cfg.replay.is_none() {
            let j = self.evidence_json(&total, unknown, &known_lines);
            if let Some(out) = &cfg.out {
                if let Some(dir) = out.parent() {
                    let _ = std::fs::create_dir_all(dir);
                }
                if let Err(e) = std::fs::write(out, json::to_string_pretty(&j)) {
                    eprintln!("MACHINERY: cannot write evidence {}: {}", out.display(), e);
                    return 2;
                }
            }
            eprintln!(
                "[{} {} {}] cases={} executions={} states={} transitions={} max_depth={} outcomes={}{} nontrivial={} selfchecks={} wall={:.1}s violations={} known={}",
                cfg.id, cfg.profile, if cfg.thorough() { "thorough" } else { "quick" },
                total.cases, total.executions, total.states, total.transitions, total.max_depth,
                total.outcomes.len(), if total.outcomes_capped { "+" } else { "" }, total.nontrivial, total.selfchecks,
                self.start.elapsed().as_secs_f64(), unknown, known_lines.len()
            );
        } else {
            eprintln!("replay finished: {} violation(s) reproduced", self.violations.len());
        }
        if unknown > 0 {
            1
        } else {
            0
        }
    }

    fn write_replay(&self, v: &Violation) -> PathBuf {
        let dir = self.cfg.verif_dir.join("replays");
        let _ = std::fs::create_dir_all(&dir);
        let h = hash_of(&(v.sub.clone(), v.ordinal, v.pivots.clone(), v.key.clone(), self.cfg.profile.clone()));
        let path = dir.join(format!("{}-{:016x}.json", self.cfg.id, h));
        let j = J::obj(vec![
            ("property", J::s(&self.cfg.id)),
            ("profile", J::s(&self.cfg.profile)),
            ("tier", J::s(if self.cfg.thorough() { "thorough" } else { "quick" })),
            ("sub", J::s(&v.sub)),
            ("ordinal", J::U(v.ordinal)),
            ("pivots", J::Arr(v.pivots.iter().map(|&p| J::U(p as u64)).collect())),
            ("key", J::s(&v.key)),
            ("case", J::s(&v.case)),
            ("detail", J::s(&v.detail)),
            ("how_to_replay", J::s(&format!("/verif/check {} --replay {}", self.cfg.id, path.display()))),
        ]);
        let _ = std::fs::write(&path, json::to_string_pretty(&j));
        path
    }

    fn evidence_json(&self, total: &Stats, unknown: usize, known_lines: &[String]) -> J {
        let cfg = &self.cfg;
        let mut samples: Vec<J> = Vec::new();
        for s in &self.subs {
            for x in s.samples.iter().take(2) {
                samples.push(J::s(&format!("{}: {}", s.name, x)));
            }
        }
        if samples.is_empty() {
            samples.push(J::s("(no case enumerated)"));
        }
        let subs: Vec<J> = self
            .subs
            .iter()
            .map(|s| {
                J::obj(vec![
                    ("name", J::s(&s.name)),
                    ("bounds", J::s(&s.bounds)),
                    ("cases", J::U(s.stats.cases)),
                    ("nontrivial_cases", J::U(s.stats.nontrivial)),
                    ("executions", J::U(s.stats.executions)),
                    ("states", J::U(s.stats.states)),
                    ("transitions", J::U(s.stats.transitions)),
                    ("max_depth", J::U(s.stats.max_depth)),
                    ("distinct_outcomes", J::U(s.stats.outcomes.len() as u64)),
                    ("distinct_outcomes_capped", J::B(s.stats.outcomes_capped)),
                    ("distinct_case_hashes", J::U(s.stats.case_hashes.len() as u64)),
                    ("case_hashes_capped", J::B(s.stats.case_hashes_capped)),
                    ("determinism_selfchecks", J::U(s.stats.selfchecks)),
                    ("counters", J::Obj(s.stats.counters.iter().map(|(k, v)| (k.clone(), J::U(*v))).collect())),
                    ("skipped", J::Obj(s.stats.skipped.iter().map(|(k, v)| (k.clone(), J::U(*v))).collect())),
                    ("max_error_over_bound", J::Obj(s.stats.max_ratio.iter().map(|(k, v)| (k.clone(), J::F(*v))).collect())),
                    ("exhaustive_within_bounds", J::B(s.exhaustive)),
                    ("caps_hit", J::Arr(s.caps.iter().map(|c| J::s(c)).collect())),
                    ("wall_s", J::F(s.wall_s)),
                ])
            })
            .collect();
        let exhaustive = self.subs.iter().all(|s| s.exhaustive);
        let mut cov = vec![
            ("states", J::U(total.states.max(1))),
            ("transitions", J::U(total.transitions.max(1))),
            ("traces_validated_against_impl", J::U(total.executions)),
            ("samples", J::Arr(samples)),
            ("evaluations", J::U(total.executions.max(1))),
            ("distinct_nontrivial", J::U(total.nontrivial)),
            ("rule", J::s(&self.rule)),
            ("exhaustive", J::B(exhaustive)),
            ("cases", J::U(total.cases)),
            ("max_depth", J::U(total.max_depth)),
            ("distinct_outcomes", J::U(total.outcomes.len() as u64)),
            ("distinct_outcomes_capped", J::B(total.outcomes_capped)),
            ("determinism_selfchecks", J::U(total.selfchecks)),
            ("profile", J::s(&cfg.profile)),
            ("threads", J::U(cfg.threads as u64)),
            ("sub_harnesses", J::Arr(subs)),
            ("known_findings_reported", J::Arr(known_lines.iter().map(|l| J::s(l)).collect())),
            ("sub_harnesses_skipped_after_violation", J::Arr(self.skipped_subs.iter().map(|l| J::s(l)).collect())),
        ];
        for (k, v) in &self.extra {
            cov.push((k.as_str(), v.clone()));
        }
        J::obj(vec![
            ("property_id", J::s(&cfg.id)),
            ("tier", J::s(if cfg.thorough() { "thorough" } else { "quick" })),
            ("seed", J::U(cfg.seed)),
            ("level", J::s("model_checking")),
            ("coverage", J::obj(cov)),
            ("assumptions", J::Arr(self.assumptions.iter().map(|a| J::s(a)).collect())),
            ("wall_s", J::F(self.start.elapsed().as_secs_f64())),
            ("violations", J::U(unknown as u64)),
        ])
    }
}
