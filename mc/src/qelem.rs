//! Element types used by the quantile harnesses (C01, C18, C19): value tables indexed by rank,
//! conversion to the oracle's domain, and the narrow "known finding K1" predicates.
use crate::qoracle::{allowed_f64, allowed_int, readings, Strat};
use ndarray_stats::interpolate::{Higher, Interpolate, Linear, Lower, Midpoint, Nearest};
use noisy_float::types::{n64, N64};
use num_traits::{FromPrimitive, NumOps, ToPrimitive};
use std::fmt::Debug;

pub trait QElem: Ord + Clone + Debug + Send + Sync + NumOps + FromPrimitive + ToPrimitive + 'static {
    const NAME: &'static str;
    const IS_FLOAT: bool;
    /// strictly increasing master tables of 8 values; `table` 0 = spread, 1 = extremes of the
    /// type, 2 = extremes restricted to magnitudes below 2^52 (for Linear on 64-bit integers)
    fn master(table: u8) -> Vec<Self>;
    /// k strictly increasing values (index = rank). Spread: the first k master values. Extremes:
    /// a subset of the master table that always contains the type's minimum and maximum and, for
    /// signed / float types, two neighbours whose difference is not representable.
    fn table(table: u8, k: usize) -> Vec<Self> {
        let m = Self::master(table);
        let idx: &[usize] = if table == 0 {
            &[0, 1, 2, 3, 4, 5, 6, 7][..k]
        } else {
            match k {
                0 => &[],
                1 => &[7],
                2 => &[0, 7],
                3 => &[0, 2, 7],
                4 => &[0, 2, 3, 7],
                5 => &[0, 2, 3, 4, 7],
                6 => &[0, 1, 2, 3, 4, 7],
                7 => &[0, 1, 2, 3, 4, 6, 7],
                _ => &[0, 1, 2, 3, 4, 5, 6, 7],
            }
        };
        idx.iter().map(|&i| m[i].clone()).collect()
    }
    fn as_i128(&self) -> i128 {
        unreachable!()
    }
    fn as_f64(&self) -> f64 {
        unreachable!()
    }
    fn tmin() -> i128 {
        0
    }
    fn tmax() -> i128 {
        0
    }
    fn key(&self) -> i128 {
        if Self::IS_FLOAT {
            (self.as_f64() + 0.0).to_bits() as i128
        } else {
            self.as_i128()
        }
    }
}

macro_rules! qint {
    ($t:ty, $name:expr, $spread:expr, $ext:expr, $lin:expr) => {
        impl QElem for $t {
            const NAME: &'static str = $name;
            const IS_FLOAT: bool = false;
            fn master(table: u8) -> Vec<Self> {
                match table {
                    0 => $spread.to_vec(),
                    1 => $ext.to_vec(),
                    _ => $lin.to_vec(),
                }
            }
            fn as_i128(&self) -> i128 {
                *self as i128
            }
            fn tmin() -> i128 {
                <$t>::MIN as i128
            }
            fn tmax() -> i128 {
                <$t>::MAX as i128
            }
        }
    };
}
qint!(i8, "i8", [-7i8, 0, 3, 10, 11, 12, 50, 51], [-128i8, -127, -100, 100, 101, 125, 126, 127], [-128i8, -127, -100, 100, 101, 125, 126, 127]);
qint!(u8, "u8", [0u8, 3, 7, 10, 11, 200, 201, 250], [0u8, 1, 2, 128, 129, 253, 254, 255], [0u8, 1, 2, 128, 129, 253, 254, 255]);
qint!(i32, "i32", [-7i32, 0, 3, 10, 11, 12, 50, 51], [i32::MIN, i32::MIN + 1, -100, 100, 101, i32::MAX - 2, i32::MAX - 1, i32::MAX], [i32::MIN, i32::MIN + 1, -100, 100, 101, i32::MAX - 2, i32::MAX - 1, i32::MAX]);
qint!(
    i64,
    "i64",
    [-7000021i64, 0, 3000009, 10000030, 11000033, 12000036, 50000000, 50000001],
    [i64::MIN, i64::MIN + 1, -100, 100, 101, i64::MAX - 2, i64::MAX - 1, i64::MAX],
    [-(1i64 << 52) + 1, -(1i64 << 52) + 2, -100, 100, 101, (1i64 << 52) - 3, (1i64 << 52) - 2, (1i64 << 52) - 1]
);
qint!(
    u64,
    "u64",
    [0u64, 3, 7000021, 10000030, 11000033, 12000036, 50000000, 50000001],
    [0u64, 1, 2, 1u64 << 63, (1u64 << 63) + 1, u64::MAX - 2, u64::MAX - 1, u64::MAX],
    [0u64, 1, 2, 1u64 << 51, (1u64 << 51) + 1, (1u64 << 52) - 3, (1u64 << 52) - 2, (1u64 << 52) - 1]
);

impl QElem for N64 {
    const NAME: &'static str = "N64";
    const IS_FLOAT: bool = true;
    fn master(table: u8) -> Vec<Self> {
        match table {
            0 => [-2.5, -0.0, 0.1, 0.75, 3.0, 3.5, 1e9, 2e9].iter().map(|&x| n64(x)).collect(),
            _ => [-1.5e308, -1.0, -1e-300, 1e-300, 1.0, 1e16, 1.4e308, 1.5e308].iter().map(|&x| n64(x)).collect(),
        }
    }
    fn as_f64(&self) -> f64 {
        self.raw()
    }
}

/// Outcome classification of one quantile result against the oracle.
#[derive(Debug, Clone, PartialEq)]
pub enum Verdict {
    Ok,
    /// mismatch that matches the recorded finding K1 (difference / offset not representable)
    Known(&'static str),
    Bad(String),
}

/// K1 predicate: the strategy's documented computation forms `higher - lower` (Midpoint) or
/// `fraction * (higher - lower)` (Linear) in the element type, and that intermediate is not
/// representable although the result is.
pub fn k1_applies<T: QElem>(sorted: &[T], q: f64, s: Strat) -> Option<&'static str> {
    let n = sorted.len();
    for r in readings(q, n) {
        let (l, h) = (&sorted[r.lower], &sorted[r.higher]);
        if T::IS_FLOAT {
            let d = h.as_f64() - l.as_f64();
            match s {
                Strat::Midpoint if !d.is_finite() => return Some("midpoint: higher - lower overflows the element type"),
                Strat::Linear if !d.is_finite() => return Some("linear: fraction * (higher - lower) overflows the element type"),
                _ => {}
            }
        } else {
            let d = h.as_i128() - l.as_i128();
            match s {
                Strat::Midpoint if d > T::tmax() => return Some("midpoint: higher - lower overflows the element type"),
                Strat::Linear => {
                    // the crate computes fraction * (higher_f64 - lower_f64) and converts it back to T
                    let off = r.frac().to_f64() * d as f64;
                    if off.trunc() > T::tmax() as f64 {
                        return Some("linear: fraction * (higher - lower) overflows the element type");
                    }
                }
                _ => {}
            }
        }
    }
    None
}

/// Pre-computed admissible set for one (sorted lane, q, strategy).
pub struct Judge<T: QElem> {
    ints: Vec<(i128, i128)>,
    floats: Vec<(f64, f64)>,
    k1: Option<&'static str>,
    desc: String,
    _t: std::marker::PhantomData<T>,
}

impl<T: QElem> Judge<T> {
    pub fn new(sorted: &[T], q: f64, s: Strat) -> Judge<T> {
        let (ints, floats) = if T::IS_FLOAT {
            let lane: Vec<f64> = sorted.iter().map(|x| x.as_f64()).collect();
            (Vec::new(), allowed_f64(&lane, q, s))
        } else {
            let lane: Vec<i128> = sorted.iter().map(|x| x.as_i128()).collect();
            (allowed_int(&lane, q, s), Vec::new())
        };
        Judge { ints, floats, k1: k1_applies(sorted, q, s), desc: format!("sorted lane {:?}, q={:?} ({:?})", sorted, q, s), _t: std::marker::PhantomData }
    }
    pub fn k1(&self) -> Option<&'static str> {
        self.k1
    }
    pub fn accepts(&self, v: &T) -> bool {
        if T::IS_FLOAT {
            let v = v.as_f64();
            self.floats.iter().any(|(c, tol)| if *tol == 0.0 { v == *c } else { (v - c).abs() <= *tol })
        } else {
            let v = v.as_i128();
            self.ints.iter().any(|(a, b)| *a <= v && v <= *b)
        }
    }
    /// Judges `got` (None = the call panicked).
    pub fn judge(&self, got: Option<&T>) -> Verdict {
        if let Some(v) = got {
            if self.accepts(v) {
                return Verdict::Ok;
            }
        }
        if let Some(why) = self.k1 {
            return Verdict::Known(why);
        }
        let allowed = if T::IS_FLOAT { format!("{:?}", self.floats) } else { format!("{:?}", self.ints) };
        Verdict::Bad(format!("got {:?}, admissible {} for {}", got, allowed, self.desc))
    }
}

/// True when `v` is admissible for strategy `s` under the single reading `r` of the position.
pub fn accepts_under<T: QElem>(sorted: &[T], r: &crate::qoracle::Reading, s: Strat, v: &T) -> bool {
    if T::IS_FLOAT {
        let lane: Vec<f64> = sorted.iter().map(|x| x.as_f64()).collect();
        let v = v.as_f64();
        crate::qoracle::allowed_f64_r(&lane, r, s).iter().any(|(c, tol)| if *tol == 0.0 { v == *c } else { (v - c).abs() <= *tol })
    } else {
        let lane: Vec<i128> = sorted.iter().map(|x| x.as_i128()).collect();
        let v = v.as_i128();
        crate::qoracle::allowed_int_r(&lane, r, s).iter().any(|(a, b)| *a <= v && v <= *b)
    }
}

/// Judges `got` (None = the call panicked) for a sorted lane.
pub fn judge<T: QElem>(sorted: &[T], q: f64, s: Strat, got: Option<&T>) -> Verdict {
    Judge::new(sorted, q, s).judge(got)
}

/// Calls `f` with the strategy object for `s`.
#[macro_export]
macro_rules! with_strategy {
    ($s:expr, $i:ident, $body:expr) => {
        match $s {
            $crate::qoracle::Strat::Lower => {
                let $i = &ndarray_stats::interpolate::Lower;
                $body
            }
            $crate::qoracle::Strat::Higher => {
                let $i = &ndarray_stats::interpolate::Higher;
                $body
            }
            $crate::qoracle::Strat::Nearest => {
                let $i = &ndarray_stats::interpolate::Nearest;
                $body
            }
            $crate::qoracle::Strat::Midpoint => {
                let $i = &ndarray_stats::interpolate::Midpoint;
                $body
            }
            $crate::qoracle::Strat::Linear => {
                let $i = &ndarray_stats::interpolate::Linear;
                $body
            }
        }
    };
}

#[allow(dead_code)]
fn _assert_interpolate<T: QElem>() {
    fn is<T, I: Interpolate<T>>(_: &I) {}
    is::<T, _>(&Lower);
    is::<T, _>(&Higher);
    is::<T, _>(&Nearest);
    is::<T, _>(&Midpoint);
    is::<T, _>(&Linear);
}
