//! C11 — histogram counts are exact for every grid and observation history.
//! Engine E2: explicit-state breadth-first search (stateright) whose transition function
//! executes the real `Histogram::add_observation` on a real object rebuilt from the state's
//! representative history.
use ndarray::prelude::*;
use ndarray::ShapeBuilder;
use ndarray_stats::histogram::{Bins, Edges, Grid, Histogram};
use ndarray_stats::HistogramExt;
use noisy_float::types::{n64, N64};
use nsmc::*;
use stateright::{Checker, Model, Property};
use std::collections::BTreeMap;
use std::fmt::Debug;
use std::hash::{Hash, Hasher};
use std::sync::atomic::{AtomicU64, Ordering};
use std::sync::Arc;

trait HE: Ord + Clone + Debug + Send + Sync + 'static {
    const NAME: &'static str;
    fn mk(c: i32) -> Self;
}
impl HE for i32 {
    const NAME: &'static str = "i32";
    fn mk(c: i32) -> i32 {
        c * 3 - 5
    }
}
impl HE for N64 {
    const NAME: &'static str = "N64";
    fn mk(c: i32) -> N64 {
        n64(c as f64 * 0.1 - 0.35)
    }
}

/// edge lists in abstract integer coordinates (even numbers; odd numbers lie strictly between)
/// index 7: an axis with 12 edges (lookups that bisect first and scan a short window afterwards)
/// index 8: a repeated edge whose occurrences are not adjacent in the input
const EDGE_LISTS: [&[i32]; 9] = [&[], &[0], &[0, 4], &[0, 4, 8], &[0, 2, 8], &[8, 0, 4, 4], &[0, 4, 4, 8], &[0, 10, 20, 30, 40, 50, 60, 70, 80, 90, 100, 110], &[4, 0, 8, 4]];

#[derive(Clone, Debug)]
struct St {
    counts: Vec<usize>,
    rejected: bool,
    depth: u8,
    /// per-axis hit pattern of the LAST insert (bit k set = coordinate k fell into a bin; 255 = none yet).
    /// Part of the key as a hedge against hidden state: should an implementation keep something
    /// from the previous call (a cached bin, a scratch index), states reached by different kinds of
    /// last insert are not merged, so the leftover is still there when the next insert is explored.
    last_kind: u8,
    fault: Option<String>,
    /// representative history (action indexes); not part of the state's identity
    history: Vec<u16>,
}
impl PartialEq for St {
    fn eq(&self, o: &St) -> bool {
        self.counts == o.counts && self.rejected == o.rejected && self.depth == o.depth && self.last_kind == o.last_kind && self.fault == o.fault
    }
}
impl Eq for St {}
impl Hash for St {
    fn hash<H: Hasher>(&self, h: &mut H) {
        self.counts.hash(h);
        self.rejected.hash(h);
        self.depth.hash(h);
        self.last_kind.hash(h);
        self.fault.hash(h);
    }
}

#[derive(Default)]
struct Tally {
    transitions: AtomicU64,
    accepted: AtomicU64,
    rejected: AtomicU64,
    max_cell: AtomicU64,
    bulk_checks: AtomicU64,
}

struct HistModel<A: HE> {
    axes: Vec<usize>,
    edges: Vec<Vec<i32>>, // sorted distinct abstract edges per axis
    shape: Vec<usize>,
    points: Vec<Vec<i32>>, // abstract coordinates of each action
    depth: u8,
    tally: Arc<Tally>,
    _a: std::marker::PhantomData<A>,
}

impl<A: HE> HistModel<A> {
    fn new(axes: &[usize], depth: u8) -> Self {
        let edges: Vec<Vec<i32>> = axes
            .iter()
            .map(|&a| {
                let mut v = EDGE_LISTS[a].to_vec();
                v.sort();
                v.dedup();
                v
            })
            .collect();
        let shape: Vec<usize> = edges.iter().map(|e| e.len().saturating_sub(1)).collect();
        // per axis: one coordinate per region class
        let per_axis: Vec<Vec<i32>> = edges
            .iter()
            .map(|e| {
                if e.is_empty() {
                    return vec![1];
                }
                let mut v = vec![e[0] - 1];
                for i in 0..e.len() {
                    v.push(e[i]);
                    if i + 1 < e.len() {
                        v.push(e[i] + 1);
                    }
                }
                v.push(e[e.len() - 1] + 1);
                v
            })
            .collect();
        let mut points: Vec<Vec<i32>> = vec![vec![]];
        for pa in &per_axis {
            let mut next = Vec::new();
            for p in &points {
                for c in pa {
                    let mut q = p.clone();
                    q.push(*c);
                    next.push(q);
                }
            }
            points = next;
        }
        HistModel { axes: axes.to_vec(), edges, shape, points, depth, tally: Arc::new(Tally::default()), _a: std::marker::PhantomData }
    }
    fn grid(&self) -> Grid<A> {
        // the edge lists reach `Edges` through three constructors, rotating with the axis: a Vec, a fresh
        // Array1, and an owned Array1 that was narrowed in place (its allocation still holds other values,
        // here 2 and 6, which would be extra edges inside the range if the raw buffer were used)
        Grid::from(
            self.axes
                .iter()
                .enumerate()
                .map(|(k, &a)| {
                    let list: Vec<A> = EDGE_LISTS[a].iter().map(|&c| A::mk(c)).collect();
                    let edges = match (k + a) % 3 {
                        0 => Edges::from(list),
                        1 => Edges::from(Array1::from(list)),
                        _ => {
                            if (k + a) % 2 == 0 {
                                let mut padded = vec![A::mk(2)];
                                padded.extend(list.iter().cloned());
                                padded.push(A::mk(6));
                                let n = padded.len() as isize;
                                Edges::from(Array1::from(padded).slice_move(ndarray::s![1..n - 1]))
                            } else {
                                let mut inter = Vec::new();
                                for x in &list {
                                    inter.push(x.clone());
                                    inter.push(A::mk(6));
                                }
                                Edges::from(Array1::from(inter).slice_move(ndarray::s![..;2]))
                            }
                        }
                    };
                    Bins::new(edges)
                })
                .collect::<Vec<_>>(),
        )
    }
    /// reference: cell of a point by linear scan over the sorted edges, or None
    fn ref_cell(&self, p: &[i32]) -> Option<Vec<usize>> {
        let mut cell = Vec::new();
        for (k, &c) in p.iter().enumerate() {
            let e = &self.edges[k];
            let mut found = None;
            if e.len() >= 2 {
                for i in 0..e.len() - 1 {
                    if e[i] <= c && c < e[i + 1] {
                        found = Some(i);
                    }
                }
            }
            cell.push(found?);
        }
        Some(cell)
    }
    fn ref_counts(&self, hist: &[u16]) -> BTreeMap<Vec<usize>, usize> {
        let mut m = BTreeMap::new();
        for &a in hist {
            if let Some(c) = self.ref_cell(&self.points[a as usize]) {
                *m.entry(c).or_insert(0) += 1;
            }
        }
        m
    }
    fn flat(&self, cell: &[usize]) -> usize {
        let mut f = 0;
        for (i, s) in cell.iter().zip(&self.shape) {
            f = f * s + i;
        }
        f
    }
    fn obs(&self, a: u16) -> Array1<A> {
        Array1::from(self.points[a as usize].iter().map(|&c| A::mk(c)).collect::<Vec<A>>())
    }
}

impl<A: HE> Model for HistModel<A> {
    type State = St;
    type Action = u16;

    fn init_states(&self) -> Vec<St> {
        let h = Histogram::new(self.grid());
        let counts: Vec<usize> = h.counts().iter().cloned().collect();
        let mut fault = None;
        if h.counts().shape() != &self.shape[..] {
            fault = Some(format!("C11/counts-shape|new histogram has counts shape {:?}, grid shape {:?}", h.counts().shape(), self.shape));
        } else if counts.iter().any(|&c| c != 0) {
            fault = Some("C11/initial-counts-nonzero|new histogram has non-zero counts".to_string());
        }
        vec![St { counts, rejected: false, depth: 0, last_kind: 255, fault, history: vec![] }]
    }

    fn actions(&self, s: &St, out: &mut Vec<u16>) {
        if s.fault.is_some() || s.depth >= self.depth {
            return;
        }
        for a in 0..self.points.len() as u16 {
            out.push(a);
        }
    }

    fn next_state(&self, s: &St, a: u16) -> Option<St> {
        self.tally.transitions.fetch_add(1, Ordering::Relaxed);
        // rebuild the real object from the representative history
        let mut h = Histogram::new(self.grid());
        for &x in &s.history {
            let _ = h.add_observation(&self.obs(x));
        }
        let pre: Vec<usize> = h.counts().iter().cloned().collect();
        let mut fault: Option<String> = None;
        if pre != s.counts {
            fault = Some(format!("C11/replay-divergence|replaying history {:?} gives counts {:?} but the state recorded {:?}", s.history, pre, s.counts));
        }
        let point = self.obs(a);
        let r = guarded(|| h.add_observation(&point));
        let post: Vec<usize> = h.counts().iter().cloned().collect();
        let mut hist = s.history.clone();
        hist.push(a);
        let want_cell = self.ref_cell(&self.points[a as usize]);
        let describe = || format!("grid axes {:?} (edges {:?}), history {:?} then point {:?}", self.axes, self.edges, s.history.iter().map(|&x| self.points[x as usize].clone()).collect::<Vec<_>>(), self.points[a as usize]);
        let mut rejected = s.rejected;
        if fault.is_none() {
            match (&r, &want_cell) {
                (Err(m), _) => fault = Some(format!("C11/panic|add_observation panicked: {}; {}", m, describe())),
                (Ok(Ok(())), Some(cell)) => {
                    self.tally.accepted.fetch_add(1, Ordering::Relaxed);
                    let f = self.flat(cell);
                    let mut exp = pre.clone();
                    if f < exp.len() {
                        exp[f] += 1;
                    }
                    if post != exp {
                        fault = Some(format!("C11/wrong-cell|accepted insert changed counts {:?} -> {:?}, expected exactly cell {:?} (+1) -> {:?}; {}", pre, post, cell, exp, describe()));
                    } else {
                        self.tally.max_cell.fetch_max(post[f] as u64, Ordering::Relaxed);
                    }
                }
                (Ok(Err(_)), None) => {
                    self.tally.rejected.fetch_add(1, Ordering::Relaxed);
                    rejected = true;
                    if post != pre {
                        fault = Some(format!("C11/reject-changed-counts|rejected insert changed counts {:?} -> {:?}; {}", pre, post, describe()));
                    }
                }
                (Ok(Ok(())), None) => fault = Some(format!("C11/outside-point-accepted|a point outside the grid was accepted (counts {:?} -> {:?}); {}", pre, post, describe())),
                (Ok(Err(_)), Some(cell)) => fault = Some(format!("C11/inside-point-rejected|a point in cell {:?} was reported as BinNotFound; {}", cell, describe())),
            }
        }
        if fault.is_none() && h.counts().shape() != &self.shape[..] {
            fault = Some(format!("C11/counts-shape|counts shape {:?}, grid shape {:?}; {}", h.counts().shape(), self.shape, describe()));
        }
        if fault.is_none() {
            // full comparison with the order-independent reference on the whole new history
            let refc = self.ref_counts(&hist);
            let mut exp = vec![0usize; post.len()];
            for (cell, n) in &refc {
                let f = self.flat(cell);
                if f < exp.len() {
                    exp[f] = *n;
                }
            }
            if exp != post {
                fault = Some(format!("C11/counts-vs-reference|counts {:?} but the reference map gives {:?}; {}", post, exp, describe()));
            }
        }
        if fault.is_none() && !hist.is_empty() {
            // bulk differential: the history as rows of a matrix, row-major and column-major
            let d = self.axes.len();
            let rows = hist.len();
            let flat: Vec<A> = hist.iter().flat_map(|&x| self.points[x as usize].iter().map(|&c| A::mk(c)).collect::<Vec<A>>()).collect();
            let c_order = Array2::from_shape_vec((rows, d), flat.clone()).unwrap();
            let mut f_order = Array2::from_elem((rows, d).f(), A::mk(0));
            f_order.assign(&c_order);
            for (name, m) in [("row-major", &c_order), ("column-major", &f_order)] {
                let r = guarded(|| m.histogram(self.grid()));
                self.tally.bulk_checks.fetch_add(1, Ordering::Relaxed);
                match r {
                    Ok(hb) => {
                        let bc: Vec<usize> = hb.counts().iter().cloned().collect();
                        if bc != post || hb.counts().shape() != &self.shape[..] {
                            fault = Some(format!("C11/bulk-vs-incremental|histogram() of the {} observation matrix gives {:?}, incremental inserts give {:?}; {}", name, bc, post, describe()));
                        }
                    }
                    Err(msg) => fault = Some(format!("C11/panic|histogram() panicked on the {} matrix: {}; {}", name, msg, describe())),
                }
            }
        }
        // per-axis hit pattern of this insert (reference model)
        let mut kind = 0u8;
        for (k, &c) in self.points[a as usize].iter().enumerate() {
            let e = &self.edges[k];
            if e.len() >= 2 && e[0] <= c && c < e[e.len() - 1] {
                kind |= 1 << k;
            }
        }
        Some(St { counts: post, rejected, depth: s.depth + 1, last_kind: kind, fault, history: hist })
    }

    fn properties(&self) -> Vec<Property<Self>> {
        vec![Property::<Self>::always("no fault", |_m, s| s.fault.is_none())]
    }

    fn within_boundary(&self, s: &St) -> bool {
        s.depth <= self.depth
    }
}

#[derive(Debug, Clone)]
struct GCase {
    axes: Vec<usize>,
    ty: u8,
    depth: u8,
    threads: usize,
}

fn run_grid<A: HE>(c: &GCase, lx: &mut Local) {
    // run the search twice; counts must agree (parallel search is only trusted if they do)
    let mut results = Vec::new();
    for _round in 0..2 {
        let model: HistModel<A> = HistModel::new(&c.axes, c.depth);
        let tally = model.tally.clone();
        let npoints = model.points.len();
        let checker = model.checker().threads(c.threads).spawn_bfs().join();
        let disc = checker.discoveries();
        let fault = disc.get("no fault").map(|p| {
            let s = p.last_state().clone();
            (s.fault.clone().unwrap_or_default(), s.history.clone())
        });
        results.push((checker.unique_state_count(), checker.state_count(), checker.max_depth(), tally.transitions.load(Ordering::Relaxed), tally.accepted.load(Ordering::Relaxed), tally.rejected.load(Ordering::Relaxed), tally.max_cell.load(Ordering::Relaxed), tally.bulk_checks.load(Ordering::Relaxed), fault, npoints));
    }
    let (a, b) = (&results[0], &results[1]);
    if a.8.is_none() && b.8.is_none() && (a.0 != b.0 || a.3 != b.3) {
        lx.machinery_error = Some(format!("two runs of the search disagree for {:?}: {} vs {} unique states, {} vs {} transitions", c, a.0, b.0, a.3, b.3));
        return;
    }
    lx.stats.states += a.0 as u64;
    lx.stats.transitions += a.3;
    lx.stats.executions += a.3;
    lx.stats.max_depth = lx.stats.max_depth.max(a.2 as u64);
    lx.count("unique_states", a.0 as u64);
    lx.count("generated_states_incl_repeats", a.1 as u64);
    lx.count("accepted_inserts", a.4);
    lx.count("rejected_inserts", a.5);
    lx.count("bulk_histogram_calls", a.7);
    lx.count("actions_in_menu", a.9 as u64);
    if a.6 >= 2 {
        lx.count("grids_where_some_cell_reached_2", 1);
    }
    if a.5 > 0 {
        lx.count("grids_with_a_rejected_insert", 1);
    }
    lx.outcome(hash_of(&(a.0, a.3)));
    if let Some((f, hist)) = &a.8 {
        let (key, detail) = f.split_once('|').unwrap_or(("C11/fault", f));
        let key = key.to_string();
        lx.fail(&key, || format!("[{}] {} (history as action indexes: {:?})", A::NAME, detail, hist));
    }
}

fn main() {
    let mut rep = Report::new("C11");
    rep.rule = "case = (grid = tuple of edge lists, element type); inside: explicit-state BFS over all insertion histories up to the depth bound; states are identified by (counts, reject-seen flag, depth, per-axis hit pattern of the last insert); non-trivial = the grid has at least one bin".into();
    rep.assume("Histogram has exactly two fields (grid, counts), both observable, so (grid, counts) is an exact canonical form: two histories with equal counts have identical futures; depth is part of the key so that the depth bound cuts the same states on every run; as a hedge against hidden state the key also carries the per-axis hit pattern of the last insert (a leftover from the previous call is then not merged away)");
    rep.assume("all history-dependent comparisons (reference map, accept/reject verdict, one-cell-changed, bulk differential) are evaluated inside the transition function, before deduplication, and their verdict is stored in a hashed field");
    let depth: u8 = rep.cfg.pick(7, 9);
    let mut cases: Vec<GCase> = Vec::new();
    for a in 0..7usize {
        for ty in 0..2u8 {
            cases.push(GCase { axes: vec![a], ty, depth: depth + 1, threads: 1 });
        }
    }
    for a in 0..7usize {
        for b in 0..7usize {
            for ty in 0..2u8 {
                cases.push(GCase { axes: vec![a, b], ty, depth, threads: 1 });
            }
        }
    }
    let nd: Vec<usize> = vec![2, 3, 4];
    for &a in &nd {
        for &b in &nd {
            for &c in &nd {
                let ty = ((a + b + c) % 2) as u8;
                cases.push(GCase { axes: vec![a, b, c], ty, depth: if rep.cfg.thorough() { 7 } else { 5 }, threads: 1 });
            }
        }
    }
    // a long axis (12 edges: 25 region classes per coordinate), alone and next to short ones
    let ld: u8 = rep.cfg.pick(3, 4);
    for ty in 0..2u8 {
        cases.push(GCase { axes: vec![7], ty, depth: ld + 1, threads: 1 });
        cases.push(GCase { axes: vec![7, 2], ty, depth: ld, threads: 1 });
        cases.push(GCase { axes: vec![3, 7], ty, depth: ld - 1, threads: 1 });
    }
    for ty in 0..2u8 {
        cases.push(GCase { axes: vec![8], ty, depth, threads: 1 });
        cases.push(GCase { axes: vec![8, 2], ty, depth: depth - 1, threads: 1 });
        cases.push(GCase { axes: vec![3, 8], ty, depth: depth - 1, threads: 1 });
    }
    for pos in 0..3usize {
        for z in [0usize, 1] {
            let mut ax = vec![2, 6, 4];
            ax[pos] = z;
            cases.push(GCase { axes: ax, ty: (pos % 2) as u8, depth, threads: 1 });
        }
    }
    // biggest first
    cases.sort_by_key(|c| std::cmp::Reverse(c.axes.iter().map(|&a| EDGE_LISTS[a].len() * 2 + 1).product::<usize>() * c.depth as usize));
    rep.dispatch_chunk = 1;
    rep.run_sub(
        "histories",
        &format!("grids: all 7 one-axis grids (depth {}), all 49 two-axis grids (depth {}), 27 three-axis grids over the non-degenerate edge lists (depth {}), grids with an edge list whose repeated value is not adjacent in the input ([4, 0, 8, 4]), grids with a 12-edge axis (alone, with a one-bin axis, after a two-bin axis; depth 3..4 (4..5)) and 6 three-axis grids with a zero-bin axis (depth {}), edge lists {{[], [0], [0,4], [0,4,8], [0,2,8], [8,0,4,4] (unsorted, duplicate), [0,4,4,8] (sorted, duplicate)}}, i32 and N64; actions: per axis one coordinate below the first edge, on every edge, strictly inside every bin, above the last edge - all combinations; breadth-first over ALL insertion sequences up to the depth; each search run twice and the counts compared", depth + 1, depth, if rep.cfg.thorough() { 7 } else { 5 }, depth),
        cases.into_iter(),
        |c, lx| {
            lx.nontrivial(c.axes.iter().all(|&a| EDGE_LISTS[a].len() >= 2 && a != 1));
            match c.ty {
                0 => run_grid::<i32>(c, lx),
                _ => run_grid::<N64>(c, lx),
            }
        },
    );
    // every integer point of a small window against every pair of short edge lists, as an owned point and as
    // a reversed view (one insert into a fresh histogram each): coordinates that are equal on both axes,
    // points just below an interior edge, axes with the same number of bins but different edges
    let dlists: Vec<usize> = vec![2, 3, 4, 5, 8];
    let dcases = dlists.clone().into_iter().flat_map(move |a| dlists.clone().into_iter().map(move |b| (a, b)));
    rep.run_sub(
        "dense-points",
        "every ordered pair of the edge lists [0,4], [0,4,8], [0,2,8], [8,0,4,4], [4,0,8,4] x every integer point (x, y) with -1 <= x, y <= 9, as an owned array, as a reversed view of the reversed coordinates and as a stepped view; i32 and N64: one add_observation into a fresh histogram - accepted exactly when both coordinates lie in a bin, and then that cell alone holds 1",
        dcases,
        |(a, b), lx| {
            lx.nontrivial(a != b);
            lx.single(|lx| {
                let mut obs = Vec::new();
                macro_rules! go {
                    ($t:ty) => {{
                        let model: HistModel<$t> = HistModel::new(&[*a, *b], 1);
                        for x in -1..=9i32 {
                            for y in -1..=9i32 {
                                let want = model.ref_cell(&[x, y]);
                                let pt: Vec<$t> = vec![<$t as HE>::mk(x), <$t as HE>::mk(y)];
                                for variant in 0..3u8 {
                                    let mut h = Histogram::new(model.grid());
                                    let r = match variant {
                                        0 => guarded(|| h.add_observation(&Array1::from(pt.clone())).is_ok()),
                                        1 => {
                                            let back = Array1::from(vec![pt[1].clone(), pt[0].clone()]);
                                            let v = back.slice(ndarray::s![..;-1]);
                                            guarded(|| h.add_observation(&v).is_ok())
                                        }
                                        _ => {
                                            let wide = Array1::from(vec![pt[0].clone(), <$t as HE>::mk(5), pt[1].clone()]);
                                            let v = wide.slice(ndarray::s![..;2]);
                                            guarded(|| h.add_observation(&v).is_ok())
                                        }
                                    };
                                    match r {
                                        Err(m) => lx.fail("C11/panic", || format!("[{}] grid over lists {} x {}: add_observation of ({}, {}) (variant {}) panicked: {}", <$t as HE>::NAME, a, b, x, y, variant, m)),
                                        Ok(accepted) => {
                                            lx.check(accepted == want.is_some(), if want.is_some() { "C11/inside-point-rejected" } else { "C11/outside-point-accepted" }, || format!("[{}] grid over lists {} x {}: point ({}, {}) (variant {}: 0 owned, 1 reversed view, 2 stepped view) accepted = {}, its cell is {:?}", <$t as HE>::NAME, a, b, x, y, variant, accepted, want));
                                            let counts = h.counts();
                                            let total: usize = counts.iter().sum();
                                            lx.check(total == want.is_some() as usize, "C11/counts-wrong", || format!("[{}] grid over lists {} x {}: after inserting ({}, {}) the counts sum to {}", <$t as HE>::NAME, a, b, x, y, total));
                                            if let Some(cell) = &want {
                                                if counts.ndim() == 2 && cell[0] < counts.shape()[0] && cell[1] < counts.shape()[1] {
                                                    lx.check(counts[[cell[0], cell[1]]] == 1, "C11/counts-wrong", || format!("[{}] grid over lists {} x {}: ({}, {}) belongs to cell {:?}, which holds {}", <$t as HE>::NAME, a, b, x, y, cell, counts[[cell[0], cell[1]]]));
                                                }
                                            }
                                            obs.push(accepted);
                                        }
                                    }
                                }
                            }
                        }
                    }};
                }
                go!(i32);
                go!(N64);
                hash_of(&obs)
            });
        },
    );
    // long observation matrices (the matrix form may work in blocks): bulk vs incremental vs reference
    rep.dispatch_chunk = 4;
    let rmax = rep.cfg.pick(300, 1100);
    let mcases = nsmc::patterns::sizes(20, rmax).into_iter().filter(|&r| r >= 1).flat_map(|rows| (0..4u8).flat_map(move |fill| (1..=3usize).map(move |d| (rows, fill, d))));
    rep.run_sub(
        "long-matrices",
        &format!("observation matrices of every row count 1..=20 and block threshold neighbourhoods up to {} x 1..=3 columns x 4 fills (all inside; an out-of-grid row early / around every 64th position / last; out-of-grid on a non-last axis only) in row-major and column-major order: histogram() vs one-by-one add_observation vs the reference map", rmax),
        mcases,
        |c, lx| {
            let (rows, fill, d) = *c;
            lx.nontrivial(true);
            lx.single(|lx| {
                let axes: Vec<usize> = vec![3, 4, 2][..d].to_vec();
                let model: HistModel<i32> = HistModel::new(&axes, 1);
                // abstract coordinates per row
                let pts: Vec<Vec<i32>> = (0..rows)
                    .map(|r| {
                        (0..d)
                            .map(|k| {
                                let inside = [1, 5, 3, 0, 4, 7][(r * (k + 2) + k) % 6];
                                let out = match fill {
                                    0 => false,
                                    1 => r == 3 % rows && k == 0,
                                    2 => (r % 64 == 63 || r % 64 == 0) && k == d - 1,
                                    _ => r % 5 == 2 && k == 0 && d >= 2,
                                };
                                if out {
                                    if r % 2 == 0 {
                                        -3
                                    } else {
                                        99
                                    }
                                } else {
                                    inside
                                }
                            })
                            .collect()
                    })
                    .collect();
                // reference
                let mut want = vec![0usize; model.shape.iter().product::<usize>().max(1)];
                for p in &pts {
                    if let Some(cell) = model.ref_cell(p) {
                        want[model.flat(&cell)] += 1;
                    }
                }
                if model.shape.iter().any(|&s| s == 0) {
                    want.clear();
                }
                // incremental
                let mut h = Histogram::new(model.grid());
                for p in &pts {
                    let _ = h.add_observation(&Array1::from(p.iter().map(|&c| <i32 as HE>::mk(c)).collect::<Vec<i32>>()));
                }
                let inc: Vec<usize> = h.counts().iter().cloned().collect();
                lx.check(inc == want, "C11/counts-vs-reference", || format!("{} single inserts (fill {}, {} columns): counts {:?}, reference {:?}", rows, fill, d, inc, want));
                let flat: Vec<i32> = pts.iter().flat_map(|p| p.iter().map(|&c| <i32 as HE>::mk(c)).collect::<Vec<_>>()).collect();
                let c_order = Array2::from_shape_vec((rows, d), flat).unwrap();
                let mut f_order = Array2::from_elem((rows, d).f(), 0i32);
                f_order.assign(&c_order);
                for (name, m) in [("row-major", &c_order), ("column-major", &f_order)] {
                    match guarded(|| m.histogram(model.grid())) {
                        Ok(hb) => {
                            let bc: Vec<usize> = hb.counts().iter().cloned().collect();
                            lx.check(bc == want, "C11/bulk-vs-incremental", || format!("histogram() of a {} matrix with {} rows x {} columns (fill {}): counts {:?} (total {}), reference {:?} (total {})", name, rows, d, fill, bc, bc.iter().sum::<usize>(), want, want.iter().sum::<usize>()));
                        }
                        Err(msg) => lx.fail("C11/panic", || format!("histogram() panicked on a {} matrix with {} rows: {}", name, rows, msg)),
                    }
                }
                hash_of(&inc)
            });
        },
    );
    rep.finish();
}
