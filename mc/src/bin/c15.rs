//! C15 — partition_mut places the pivot at its sorted rank.
use ndarray_stats::Sort1dExt;
use nsmc::layouts::{guards_intact, Host1};
use nsmc::patterns::weak_orders;
use nsmc::*;

#[derive(Debug, Clone)]
struct Case {
    pat: Vec<u8>,
    pivot: usize,
    step: isize,
}

/// Clone-but-not-Copy element type with a heap payload.
#[derive(Clone, Debug, PartialEq, Eq, PartialOrd, Ord, Hash)]
struct Heavy(Box<i64>);

fn run_one<T: Ord + Clone + std::fmt::Debug + std::hash::Hash>(c: &Case, vals: Vec<T>, sentinel: T, lx: &mut Local, tag: &str) {
    let n = vals.len();
    lx.single(|lx| {
        let mut h = Host1::new(&vals, c.step, 2, sentinel.clone());
        let before = h.memory();
        let offs = h.view_offsets();
        let pv = vals[c.pivot].clone();
        let r = guarded(|| h.view_mut().partition_mut(c.pivot));
        let after_l = h.logical();
        match &r {
            Err(msg) => {
                lx.fail("C15/in-range-panic", || format!("{}: partition_mut({}) on {:?} (step {}) panicked: {}", tag, c.pivot, vals, c.step, msg));
            }
            Ok(k) => {
                let k = *k;
                let rank = vals.iter().filter(|x| **x < pv).count();
                lx.check(k == rank, "C15/wrong-rank", || format!("{}: partition_mut({}) on {:?} returned {} but {} elements are smaller than the pivot value {:?}", tag, c.pivot, vals, k, rank, pv));
                if k < n {
                    lx.check(after_l[k] == pv, "C15/pivot-not-at-k", || format!("{}: after partition_mut({}) on {:?}: a[{}]={:?}, pivot value {:?}; array {:?}", tag, c.pivot, vals, k, after_l[k], pv, after_l));
                    lx.check(after_l[..k].iter().all(|x| *x < pv), "C15/left-not-smaller", || format!("{}: {:?} pivot {} -> k={} array {:?}", tag, vals, c.pivot, k, after_l));
                    lx.check(after_l[k + 1..].iter().all(|x| *x >= pv), "C15/right-not-geq", || format!("{}: {:?} pivot {} -> k={} array {:?}", tag, vals, c.pivot, k, after_l));
                } else {
                    lx.fail("C15/index-out-of-range", || format!("{}: returned {} for length {}", tag, k, n));
                }
            }
        }
        let mut a = vals.clone();
        let mut b = after_l.clone();
        a.sort();
        b.sort();
        if !(a == b) {
            lx.count("multiset_changed (not judged here: property C03)", 1);
        }
        if let Err(_i) = guards_intact(&before, &h.memory(), &offs, |x, y| x == y) {
            lx.count("cells_outside_the_view_changed (not judged here: property C03)", 1);
        }
        hash_of(&(r.ok(), after_l))
    });
}

/// The crate's own ordered element type: `NotNone<i32>` (what a lane of `Option<i32>` becomes once its
/// missing values are removed). It implements the comparison operators by hand, so "generic over
/// Ord" does not cover it: the same patterns are partitioned through it.
fn run_notnone(c: &Case, lx: &mut Local) {
    use ndarray_stats::MaybeNan;
    let spread: [i32; 10] = [-7, 0, 3, 10, 11, 12, 100, 101, 1000, 5000];
    let vals: Vec<i32> = c.pat.iter().map(|&r| spread[r as usize]).collect();
    let n = vals.len();
    let pv = vals[c.pivot];
    lx.single(|lx| {
        let opt: Vec<Option<i32>> = vals.iter().map(|&v| Some(v)).collect();
        let mut h = Host1::new(&opt, c.step, 2, Some(-99));
        let r = guarded(|| {
            let view = h.view_mut();
            let mut nn = <Option<i32> as MaybeNan>::remove_nan_mut(view);
            if nn.len() != n {
                return Err(format!("remove_nan_mut kept {} of {} non-missing elements", nn.len(), n));
            }
            let k = nn.partition_mut(c.pivot);
            Ok((k, nn.iter().map(|x| **x).collect::<Vec<i32>>()))
        });
        match &r {
            Err(msg) => lx.fail("C15/in-range-panic", || format!("NotNone<i32>: partition_mut({}) on {:?} (step {}) panicked: {}", c.pivot, vals, c.step, msg)),
            Ok(Err(m)) => lx.fail("C15/notnone-setup", || format!("{} on {:?}", m, vals)),
            Ok(Ok((k, after))) => {
                let k = *k;
                let rank = vals.iter().filter(|x| **x < pv).count();
                lx.check(k == rank, "C15/wrong-rank", || format!("NotNone<i32>: partition_mut({}) on {:?} returned {} but {} elements are smaller than the pivot value {}", c.pivot, vals, k, rank, pv));
                if k < n {
                    lx.check(after[k] == pv, "C15/pivot-not-at-k", || format!("NotNone<i32>: after partition_mut({}) on {:?}: a[{}]={}, pivot value {}; array {:?}", c.pivot, vals, k, after[k], pv, after));
                    lx.check(after[..k].iter().all(|x| *x < pv), "C15/left-not-smaller", || format!("NotNone<i32>: {:?} pivot {} -> k={} array {:?}", vals, c.pivot, k, after));
                    lx.check(after[k + 1..].iter().all(|x| *x >= pv), "C15/right-not-geq", || format!("NotNone<i32>: {:?} pivot {} -> k={} array {:?}", vals, c.pivot, k, after));
                } else {
                    lx.fail("C15/index-out-of-range", || format!("NotNone<i32>: returned {} for length {}", k, n));
                }
                let (mut a, mut b) = (vals.clone(), after.clone());
                a.sort();
                b.sort();
                if !(a == b) {
            lx.count("multiset_changed (not judged here: property C03)", 1);
        }
            }
        }
        hash_of(&r.ok())
    });
}

fn main() {
    let mut rep = Report::new("C15");
    let nmax = rep.cfg.pick(8, 9);
    rep.rule = "case = (weak-order pattern, pivot position, view stride); every pattern of every length up to the bound, every pivot position, strides {1,2,-1,3,-2}; non-trivial = length >= 2 and not all elements equal".into();
    rep.assume("partition_mut is generic over Ord + Clone and can only compare and clone, so its behaviour on an input is determined by the input's weak-order pattern; all patterns up to the length bound are enumerated");
    let steps: Vec<isize> = vec![1, 2, -1, 3, -2];
    let pats: Vec<Vec<u8>> = (1..=nmax).flat_map(|n| weak_orders(n)).collect();
    let steps2 = steps.clone();
    let cases = pats.into_iter().flat_map(move |pat| {
        let n = pat.len();
        let steps = steps2.clone();
        (0..n).flat_map(move |p| {
            let pat = pat.clone();
            // all strides for short arrays, unit stride plus one rotating stride for the long ones
            let st: Vec<isize> = if n <= 6 { steps.clone() } else { vec![1, steps[1 + (p % (steps.len() - 1))]] };
            st.into_iter().map(move |s| Case { pat: pat.clone(), pivot: p, step: s })
        })
    });
    rep.run_sub(
        "partition",
        &format!("all weak-order patterns of length 1..={} x every pivot position x strides {:?} (n<=6: all strides; n>6: unit + one rotating non-unit stride); element types i32 (spread table), [i64; 3] (24 bytes; n<=7), NotNone<i32> (the crate's own ordered wrapper, reached through remove_nan_mut; n<=7), i64 (extreme values), Heavy(Box<i64>) (non-Copy)", nmax, steps),
        cases,
        |c, lx| {
            let n = c.pat.len();
            lx.nontrivial(n >= 2 && c.pat.iter().any(|&r| r != c.pat[0]));
            if n == 1 {
                lx.count("single_element_arrays", 1);
            }
            if c.pivot == 0 {
                lx.count("pivot_at_first_position", 1);
            }
            if c.pat.iter().filter(|&&r| r == c.pat[c.pivot]).count() >= 2 {
                lx.count("pivot_value_has_duplicates", 1);
            }
            let spread: [i32; 10] = [-7, 0, 3, 10, 11, 12, 100, 101, 1000, 5000];
            run_one(c, c.pat.iter().map(|&r| spread[r as usize]).collect::<Vec<i32>>(), -99, lx, "i32");
            if n <= 6 {
                let ext: [i64; 10] = [i64::MIN, i64::MIN + 1, -1, 0, 1, 2, i64::MAX - 2, i64::MAX - 1, i64::MAX, i64::MAX];
                if (c.pat.iter().cloned().max().unwrap() as usize) < 9 {
                    run_one(c, c.pat.iter().map(|&r| ext[r as usize]).collect::<Vec<i64>>(), 42, lx, "i64-extremes");
                }
                run_one(c, c.pat.iter().map(|&r| Heavy(Box::new(r as i64 * 3 - 4))).collect::<Vec<Heavy>>(), Heavy(Box::new(-1000)), lx, "Heavy");
            }
            if n <= 7 {
                run_notnone(c, lx);
                // an element wider than two machine words (24 bytes): implementations that pick a partition
                // scheme by element size take another path for it
                run_one(c, c.pat.iter().map(|&r| [r as i64 * 3 - 4, 7, -(r as i64)]).collect::<Vec<[i64; 3]>>(), [-1000, 0, 0], lx, "[i64; 3]");
            }
        },
    );
    // shared ownership: an ArcArray whose buffer is shared (the call must un-share first) and a CowArray that borrows
    let spats: Vec<Vec<u8>> = (1..=rep.cfg.pick(6, 7)).flat_map(|n| weak_orders(n)).collect();
    rep.run_sub(
        "shared-ownership",
        "all weak-order patterns of length 1..=6 (7) x every pivot position, called on an ArcArray that shares its buffer with a second handle and on a CowArray borrowing an array: same post-conditions, and the other handle / the borrowed array is unchanged",
        spats.into_iter().flat_map(|pat| { let n = pat.len(); (0..n).map(move |p| (pat.clone(), p)).collect::<Vec<_>>() }),
        |c, lx| {
            use ndarray::{ArcArray1, CowArray};
            let (pat, p) = c;
            let n = pat.len();
            lx.nontrivial(n >= 2);
            let vals: Vec<i32> = pat.iter().map(|&r| r as i32 * 3 - 4).collect();
            let pv = vals[*p];
            let rank = vals.iter().filter(|x| **x < pv).count();
            for kind in 0..2u8 {
                lx.single(|lx| {
                    let keep = ArcArray1::from(vals.clone());
                    let base = ndarray::Array1::from(vals.clone());
                    let (r, after): (Result<usize, String>, Vec<i32>) = if kind == 0 {
                        let mut a = keep.clone();
                        let r = guarded(|| a.partition_mut(*p));
                        (r, a.to_vec())
                    } else {
                        let mut cow = CowArray::from(base.view());
                        let r = guarded(|| cow.partition_mut(*p));
                        (r, cow.to_vec())
                    };
                    let what = if kind == 0 { "shared ArcArray" } else { "borrowing CowArray" };
                    match &r {
                        Err(m) => lx.fail("C15/in-range-panic", || format!("partition_mut({}) on a {} {:?} panicked: {}", p, what, vals, m)),
                        Ok(k) => {
                            let k = *k;
                            lx.check(k == rank, "C15/wrong-rank", || format!("partition_mut({}) on a {} {:?} returned {} but {} elements are smaller than the pivot value {}", p, what, vals, k, rank, pv));
                            if k < n {
                                lx.check(after[k] == pv && after[..k].iter().all(|x| *x < pv) && after[k + 1..].iter().all(|x| *x >= pv), "C15/left-not-smaller", || format!("partition_mut({}) on a {} {:?} -> k={} array {:?}", p, what, vals, k, after));
                            }
                        }
                    }
                    let mut a = vals.clone();
                    let mut b = after.clone();
                    a.sort();
                    b.sort();
                    if !(a == b) {
            lx.count("multiset_changed (not judged here: property C03)", 1);
        }
                    if !(keep.to_vec() == vals && base.to_vec() == vals) {
                        lx.count("other_handle_modified (not judged here: property C03)", 1);
                    }
                    hash_of(&(r.ok(), after))
                });
            }
        },
    );
    // long arrays: block / offset-buffer thresholds in partition implementations
    let smax = rep.cfg.pick(2100, 4200);
    let lcases = nsmc::patterns::sizes(16, smax).into_iter().filter(|&n| n >= 9).flat_map(|n| {
        (0..5u8).flat_map(move |fam| {
            let mut piv: Vec<usize> = vec![0, 1, n / 2, n - 2, n - 1, n / 3];
            piv.extend([255usize, 256, 257, 511, 512].iter().cloned().filter(|&p| p < n));
            piv.sort();
            piv.dedup();
            piv.into_iter().map(move |p| (n, fam, p))
        })
    });
    rep.run_sub(
        "long-arrays",
        &format!("every length 9..=16 and block threshold neighbourhoods (2^k-1, 2^k, 2^k+1, 3*2^(k-1)+-1, multiples of 100) up to {} x 5 input families (increasing, decreasing, pseudo-random permutation, two-valued, sawtooth) x pivot positions (ends, middle, third, 255..257, 511, 512) on contiguous / reversed / stepped views", smax),
        lcases,
        |c, lx| {
            let (n, fam, p) = *c;
            lx.nontrivial(true);
            let vals: Vec<i32> = (0..n)
                .map(|i| match fam {
                    0 => i as i32,
                    1 => (n - i) as i32,
                    2 => ((i * 7919 + 13) % n) as i32,
                    3 => (i % 2) as i32,
                    _ => (i % 7) as i32,
                })
                .collect();
            let case = Case { pat: vec![], pivot: p, step: [1isize, -1, 2][(n + p) % 3] };
            run_one(&case, vals, -99, lx, "i32-long");
        },
    );
    rep.finish();
}
