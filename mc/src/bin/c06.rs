//! C06 — means and weighted sums agree with exact arithmetic.
use ndarray::prelude::*;
use ndarray_stats::errors::MultiInputError;
use ndarray_stats::SummaryStatisticsExt;
use nsmc::exact::{sum, Rat};
use nsmc::fl::{self, err_of, rats, Fl};
use nsmc::layouts::{all_layouts, lanes_flat, Host, Host1, Layout};
use nsmc::patterns::sequences;
use nsmc::*;

const DATA: [f64; 7] = [-2.0, -1.0, 0.0, 0.1, 0.5, 1.0, 3.0];
const WEIGHTS: [f64; 4] = [0.0, 0.25, 1.0, 3.0];
const OFFSETS: [f64; 3] = [0.0, 1048576.0, 1e8];
const SCALES: [f64; 2] = [1.0, 1e-3];

#[derive(Debug, Clone)]
struct FCase {
    digits: Vec<u8>,
    off: u8,
    scale: u8,
    ty: u8,
}

fn c4(n: usize) -> f64 {
    4.0 * (n as f64 + 4.0)
}

/// weight vectors paired with a data array: all for n <= 3, a rotating selection beyond
fn weight_vectors(n: usize, salt: usize) -> Vec<Vec<u8>> {
    let all: Vec<Vec<u8>> = sequences(n, 4).collect();
    if n <= 3 {
        all
    } else {
        let k = if n == 4 { 16 } else { 8 };
        (0..k).map(|i| all[(salt * 7919 + i * (all.len() / k) + i) % all.len()].clone()).collect()
    }
}

fn run_float<T: Fl>(c: &FCase, lx: &mut Local) {
    let n = c.digits.len();
    let off = if T::NAME == "f32" { [0.0, 1024.0, 65536.0][c.off as usize] } else { OFFSETS[c.off as usize] };
    let xs: Vec<T> = c.digits.iter().map(|&d| T::of((DATA[d as usize] + off) * SCALES[c.scale as usize])).collect();
    let xr = rats(&xs);
    let u = T::U;
    let desc = |what: &str| format!("[{}] {} of {:?}", T::NAME, what, xs);
    let strides = [1isize, 2, -1];
    // ---- mean / harmonic / geometric
    for &st in &strides {
        lx.single(|lx| {
            let h = Host1::new(&xs, st, 1, T::of(777.0));
            let v = h.view();
            let mut obs: Vec<u64> = Vec::new();
            let r = guarded(|| SummaryStatisticsExt::mean(&v));
            match r {
                Err(m) => lx.fail("C06/panic", || format!("{} panicked: {}", desc("mean"), m)),
                Ok(Err(_)) => {
                    lx.check(n == 0, "C06/spurious-error", || desc("mean: EmptyInput"));
                }
                Ok(Ok(got)) => {
                    if n == 0 {
                        lx.fail("C06/missing-error", || desc("mean of empty"));
                    } else {
                        let want = fl::mean(&xr);
                        let bound = c4(n) * u * fl::abs_sum(&xr).to_f64_up_abs() / n as f64;
                        let e = err_of(got.to_f64_(), &want);
                        lx.ratio("mean", e / bound.max(f64::MIN_POSITIVE));
                        lx.within(e, bound, "C06/mean", || format!("{} (stride {}) = {:?}, exact {:e}, error {:e} > bound {:e}", desc("mean"), st, got, want.to_f64(), e, bound));
                        obs.push(got.bits_());
                    }
                }
            }
            // harmonic: non-zero data only
            if n > 0 && xs.iter().all(|x| *x != T::zero()) {
                let recips: Vec<Rat> = xr.iter().map(|x| x.recip()).collect();
                let m = fl::mean(&recips);
                if m.is_zero() {
                    lx.skip("harmonic_mean: exact mean of reciprocals is zero");
                } else {
                    let want = m.recip();
                    let rel_m = (n as f64 + 4.0) * u * (fl::abs_sum(&recips).to_f64_up_abs() / n as f64) / m.to_f64_up_abs();
                    if rel_m > 1e-3 {
                        lx.skip("harmonic_mean: ill-conditioned beyond first-order bound");
                    } else {
                        let bound = 4.0 * (rel_m + 2.0 * u) * want.to_f64_up_abs();
                        match guarded(|| v.harmonic_mean()) {
                            Ok(Ok(got)) => {
                                let e = err_of(got.to_f64_(), &want);
                                lx.ratio("harmonic_mean", e / bound);
                                lx.within(e, bound, "C06/harmonic-mean", || format!("{} = {:?}, exact {:e}, error {:e} > bound {:e}", desc("harmonic_mean"), got, want.to_f64(), e, bound));
                                obs.push(got.bits_());
                            }
                            other => lx.fail("C06/harmonic-mean-failed", || format!("{}: {:?}", desc("harmonic_mean"), other.map(|r| r.map(|x| x.to_f64_())))),
                        }
                    }
                }
            } else if n == 0 {
                lx.check(matches!(guarded(|| v.harmonic_mean()), Ok(Err(_))), "C06/missing-error", || desc("harmonic_mean of empty"));
                lx.check(matches!(guarded(|| v.geometric_mean()), Ok(Err(_))), "C06/missing-error", || desc("geometric_mean of empty"));
            }
            // geometric: positive data only
            if n > 0 && xs.iter().all(|x| *x > T::zero()) {
                let mut prod = Rat::one();
                for x in &xr {
                    prod = &prod * x;
                }
                let want = prod.to_f64().powf(1.0 / n as f64);
                let mean_abs_ln: f64 = xs.iter().map(|x| x.to_f64_().ln().abs()).sum::<f64>() / n as f64;
                let tol = 4.0 * (n as f64 + 8.0) * u * (1.0 + mean_abs_ln) * want;
                match guarded(|| v.geometric_mean()) {
                    Ok(Ok(got)) => {
                        let e = (got.to_f64_() - want).abs();
                        lx.ratio("geometric_mean", e / tol);
                        lx.within(e, tol, "C06/geometric-mean", || format!("{} = {:?}, reference {:e}, error {:e} > tolerance {:e}", desc("geometric_mean"), got, want, e, tol));
                        obs.push(got.bits_());
                    }
                    other => lx.fail("C06/geometric-mean-failed", || format!("{}: {:?}", desc("geometric_mean"), other.map(|r| r.map(|x| x.to_f64_())))),
                }
            }
            hash_of(&obs)
        });
    }
    if n == 0 {
        return;
    }
    // ---- weighted sum / mean over weight vectors and layout pairs
    let salt = c.digits.iter().fold(c.off as usize * 2 + c.scale as usize, |a, &d| a * 7 + d as usize);
    for wd in weight_vectors(n, salt) {
        let ws: Vec<T> = wd.iter().map(|&d| T::of(WEIGHTS[d as usize])).collect();
        let wr = rats(&ws);
        let (s, a) = fl::weighted_sum(&xr, &wr);
        let wtot = sum(wr.iter());
        let sbound = c4(n) * u * a.to_f64_up_abs();
        for (pi, &(sx, sw)) in [(1isize, 1isize), (1, -1), (2, 3), (-1, 1), (-1, -2), (3, -1)].iter().enumerate() {
            // every data array sees every stride pair for n<=3; above, the pair rotates with the weight vector
            if n > 3 && (pi + salt + wd[0] as usize) % 3 != 0 {
                continue;
            }
            lx.single(|lx| {
                let hx = Host1::new(&xs, sx, 1, T::of(777.0));
                let hw = Host1::new(&ws, sw, 2, T::of(555.0));
                let (vx, vw) = (hx.view(), hw.view());
                let mut obs = Vec::new();
                match guarded(|| vx.weighted_sum(&vw)) {
                    Ok(Ok(got)) => {
                        let e = err_of(got.to_f64_(), &s);
                        lx.ratio("weighted_sum", e / sbound.max(f64::MIN_POSITIVE));
                        lx.within(e, sbound, "C06/weighted-sum", || format!("[{}] weighted_sum of {:?} (stride {}) with weights {:?} (stride {}) = {:?}, exact {:e}, error {:e} > bound {:e}", T::NAME, xs, sx, ws, sw, got, s.to_f64(), e, sbound));
                        obs.push(got.bits_());
                    }
                    other => lx.fail("C06/weighted-sum-failed", || format!("[{}] weighted_sum of {:?} with {:?}: {:?}", T::NAME, xs, ws, other.map(|r| r.map(|x| x.to_f64_())))),
                }
                if wtot.is_zero() {
                    lx.skip("weighted_mean: total weight is zero (outside the property's domain)");
                } else {
                    let want = &s / &wtot;
                    let bound = 2.0 * c4(n) * u * (a.to_f64_up_abs() / wtot.to_f64());
                    match guarded(|| vx.weighted_mean(&vw)) {
                        Ok(Ok(got)) => {
                            let e = err_of(got.to_f64_(), &want);
                            lx.ratio("weighted_mean", e / bound.max(f64::MIN_POSITIVE));
                            lx.within(e, bound, "C06/weighted-mean", || format!("[{}] weighted_mean of {:?} (stride {}) with weights {:?} (stride {}) = {:?}, exact {:e}, error {:e} > bound {:e}", T::NAME, xs, sx, ws, sw, got, want.to_f64(), e, bound));
                            obs.push(got.bits_());
                        }
                        other => lx.fail("C06/weighted-mean-failed", || format!("[{}] weighted_mean of {:?} with {:?}: {:?}", T::NAME, xs, ws, other.map(|r| r.map(|x| x.to_f64_())))),
                    }
                }
                hash_of(&obs)
            });
        }
    }
}

#[derive(Debug, Clone)]
struct ICase {
    digits: Vec<u8>,
    ty: u8,
}

macro_rules! run_int {
    ($name:ident, $t:ty, $alpha:expr, $walpha:expr) => {
        fn $name(c: &ICase, lx: &mut Local) {
            let n = c.digits.len();
            let alpha: [$t; 5] = $alpha;
            let walpha: [$t; 4] = $walpha;
            let xs: Vec<$t> = c.digits.iter().map(|&d| alpha[d as usize]).collect();
            let exact_sum: i128 = xs.iter().map(|&x| x as i128).sum();
            for &st in &[1isize, 2, -1] {
                lx.single(|lx| {
                    let h = Host1::new(&xs, st, 1, 77 as $t);
                    let v = h.view();
                    match guarded(|| SummaryStatisticsExt::mean(&v)) {
                        Ok(Ok(got)) => {
                            let want = if n == 0 { None } else { Some(((exact_sum as $t) / (n as $t)) as i128) };
                            lx.check(Some(got as i128) == want, "C06/int-mean", || format!("[{}] mean of {:?} = {}, expected {:?} (exact sum {} / {})", stringify!($t), xs, got, want, exact_sum, n));
                            got as u64
                        }
                        Ok(Err(_)) => {
                            lx.check(n == 0, "C06/spurious-error", || format!("[{}] mean of {:?}: EmptyInput", stringify!($t), xs));
                            0
                        }
                        Err(m) => {
                            lx.fail("C06/panic", || format!("[{}] mean of {:?} panicked: {}", stringify!($t), xs, m));
                            1
                        }
                    }
                });
            }
            if n == 0 {
                return;
            }
            for wd in sequences(n, 4) {
                let ws: Vec<$t> = wd.iter().map(|&d| walpha[d as usize]).collect();
                let es: i128 = xs.iter().zip(&ws).map(|(&x, &w)| x as i128 * w as i128).sum();
                let wt: i128 = ws.iter().map(|&w| w as i128).sum();
                let pair = [(1isize, -1isize), (2, 1), (-1, 3)][(wd.iter().map(|&d| d as usize).sum::<usize>()) % 3];
                lx.single(|lx| {
                    let hx = Host1::new(&xs, pair.0, 1, 77 as $t);
                    let hw = Host1::new(&ws, pair.1, 1, 55 as $t);
                    let (vx, vw) = (hx.view(), hw.view());
                    match guarded(|| vx.weighted_sum(&vw)) {
                        Ok(Ok(got)) => {
                            lx.check(got as i128 == es, "C06/int-weighted-sum", || format!("[{}] weighted_sum of {:?} with {:?} = {}, exact {}", stringify!($t), xs, ws, got, es));
                        }
                        other => lx.fail("C06/weighted-sum-failed", || format!("[{}] weighted_sum of {:?} with {:?}: {:?}", stringify!($t), xs, ws, other)),
                    }
                    if wt == 0 {
                        lx.skip("integer weighted_mean: total weight zero (division by zero, outside the domain)");
                    } else {
                        match guarded(|| vx.weighted_mean(&vw)) {
                            Ok(Ok(got)) => {
                                let want = ((es as $t) / (wt as $t)) as i128;
                                lx.check(got as i128 == want, "C06/int-weighted-mean", || format!("[{}] weighted_mean of {:?} with {:?} = {}, expected {} / {} = {}", stringify!($t), xs, ws, got, es, wt, want));
                            }
                            other => lx.fail("C06/weighted-mean-failed", || format!("[{}] weighted_mean of {:?} with {:?}: {:?}", stringify!($t), xs, ws, other)),
                        }
                    }
                    es as u64
                });
            }
        }
    };
}
run_int!(run_i32, i32, [-3, -1, 0, 2, 7], [0, 1, 2, 5]);
run_int!(run_i64, i64, [-3_000_000_000, -1, 0, 2, 7_000_000_000], [0, 1, 2, 5]);
run_int!(run_u8, u8, [0, 1, 2, 3, 7], [0, 1, 2, 5]);

#[derive(Debug, Clone)]
struct NCase {
    shape: Vec<usize>,
    axis: usize,
    ldata: Layout,
    wstep: isize,
    fill: usize,
    ty: u8,
}

fn run_nd<T: Fl>(c: &NCase, lx: &mut Local) {
    let n: usize = c.shape.iter().product();
    let ll = c.shape[c.axis];
    let u = T::U;
    // data: mixed magnitudes and signs that depend on the fill; weights asymmetric along the axis
    let data: Vec<T> = (0..n).map(|i| T::of(DATA[(i * 3 + c.fill) % 7] + if c.fill % 3 == 1 { 1e6 } else { 0.0 } + (i as f64) * 0.1 * ((c.fill % 2) as f64))).collect();
    let ws: Vec<T> = (0..ll).map(|k| T::of(WEIGHTS[(k + c.fill / 2) % 4] + if k == 0 { 0.5 } else { 0.0 })).collect();
    let lanes = lanes_flat(&c.shape, c.axis);
    let wr = rats(&ws);
    let wtot = sum(wr.iter());
    lx.single(|lx| {
        let hd = Host::new(&c.shape, &data, &c.ldata, T::of(777.0));
        let hw = Host1::new(&ws, c.wstep, 1, T::of(555.0));
        let vd = hd.view();
        let vw = hw.view();
        let mut obs = Vec::new();
        let rs = guarded(|| vd.weighted_sum_axis(Axis(c.axis), &vw));
        let rm = guarded(|| vd.weighted_mean_axis(Axis(c.axis), &vw));
        let mut out_shape = c.shape.clone();
        out_shape.remove(c.axis);
        match (rs, rm) {
            (Ok(Ok(rs)), Ok(Ok(rm))) => {
                lx.check(rs.shape() == &out_shape[..] && rm.shape() == &out_shape[..], "C06/axis-shape", || format!("[{}] axis result shapes {:?} / {:?}, expected {:?}: {:?}", T::NAME, rs.shape(), rm.shape(), out_shape, c));
                let fs: Vec<T> = rs.iter().cloned().collect();
                let fm: Vec<T> = rm.iter().cloned().collect();
                for (j, lane) in lanes.iter().enumerate() {
                    if j >= fs.len() || j >= fm.len() {
                        break;
                    }
                    let lx_: Vec<T> = lane.iter().map(|&i| data[i]).collect();
                    let lr = rats(&lx_);
                    let (s, a) = fl::weighted_sum(&lr, &wr);
                    let sb = c4(ll) * u * a.to_f64_up_abs();
                    let e = err_of(fs[j].to_f64_(), &s);
                    lx.ratio("weighted_sum_axis", e / sb.max(f64::MIN_POSITIVE));
                    lx.within(e, sb, "C06/weighted-sum-axis", || format!("[{}] weighted_sum_axis lane {} = {:?}, exact {:e}, error {:e} > bound {:e}; lane {:?} weights {:?}; {:?}", T::NAME, j, fs[j], s.to_f64(), e, sb, lx_, ws, c));
                    let want = &s / &wtot;
                    let mb = 2.0 * c4(ll) * u * (a.to_f64_up_abs() / wtot.to_f64());
                    let e = err_of(fm[j].to_f64_(), &want);
                    lx.ratio("weighted_mean_axis", e / mb.max(f64::MIN_POSITIVE));
                    lx.within(e, mb, "C06/weighted-mean-axis", || format!("[{}] weighted_mean_axis lane {} = {:?}, exact {:e}, error {:e} > bound {:e}; lane {:?} weights {:?}; {:?}", T::NAME, j, fm[j], want.to_f64(), e, mb, lx_, ws, c));
                    // against the whole-array routine on that lane (same weights): within twice the bound
                    let lane_arr = Array1::from(lx_.clone());
                    let w_arr = Array1::from(ws.clone());
                    if let (Ok(ws1), Ok(wm1)) = (lane_arr.weighted_sum(&w_arr), lane_arr.weighted_mean(&w_arr)) {
                        lx.within((ws1.to_f64_() - fs[j].to_f64_()).abs(), 2.0 * sb, "C06/axis-vs-whole-array", || format!("[{}] weighted_sum_axis lane {} = {:?} but weighted_sum of the lane = {:?}", T::NAME, j, fs[j], ws1));
                        lx.within((wm1.to_f64_() - fm[j].to_f64_()).abs(), 2.0 * mb, "C06/axis-vs-whole-array", || format!("[{}] weighted_mean_axis lane {} = {:?} but weighted_mean of the lane = {:?}", T::NAME, j, fm[j], wm1));
                        if ws1.bits_() == fs[j].bits_() && wm1.bits_() == fm[j].bits_() {
                            lx.count("axis_results_bit_equal_to_whole_array_routine", 1);
                        } else {
                            lx.count("axis_results_not_bit_equal_to_whole_array_routine", 1);
                        }
                    }
                    obs.push(fs[j].bits_());
                }
            }
            (a, b) => lx.fail("C06/axis-failed", || format!("[{}] weighted_sum_axis / weighted_mean_axis failed: {:?} / {:?} on {:?}", T::NAME, a.map(|r| r.map(|_| ())), b.map(|r| r.map(|_| ())), c)),
        }
        // whole-array mean / weighted_sum with an independent layout for the weights array
        let wfull: Vec<T> = (0..n).map(|i| T::of(WEIGHTS[(i + c.fill) % 4])).collect();
        // weights array in a different layout; when the data layout is contiguous (pad 0) the weights are
        // contiguous too but in another memory order (reversed permutation, one axis flipped), so that a
        // routine pairing operands by memory order instead of logical index is exposed
        let lw = if c.ldata.pad == 0 {
            let mut steps = c.ldata.steps.clone();
            let k = c.fill % steps.len();
            steps[k] *= -1;
            Layout { perm: c.ldata.perm.iter().rev().cloned().collect(), steps, pad: 0 }
        } else {
            Layout { perm: c.ldata.perm.iter().rev().cloned().collect(), steps: c.ldata.steps.iter().map(|s| -s).collect(), pad: 1 }
        };
        let hw2 = Host::new(&c.shape, &wfull, &lw, T::of(555.0));
        let dr = rats(&data);
        let (s, a) = fl::weighted_sum(&dr, &rats(&wfull));
        match guarded(|| vd.weighted_sum(&hw2.view())) {
            Ok(Ok(got)) => {
                let sb = c4(n) * u * a.to_f64_up_abs();
                let e = err_of(got.to_f64_(), &s);
                lx.within(e, sb, "C06/weighted-sum-nd", || format!("[{}] n-D weighted_sum = {:?}, exact {:e}, error {:e} > bound {:e}: {:?} (weights in layout {:?})", T::NAME, got, s.to_f64(), e, sb, c, lw));
            }
            other => lx.fail("C06/weighted-sum-failed", || format!("n-D weighted_sum: {:?} on {:?}", other.map(|r| r.map(|x| x.to_f64_())), c)),
        }
        match guarded(|| SummaryStatisticsExt::mean(&vd)) {
            Ok(Ok(got)) => {
                let want = fl::mean(&dr);
                let b = c4(n) * u * fl::abs_sum(&dr).to_f64_up_abs() / n as f64;
                let e = err_of(got.to_f64_(), &want);
                lx.within(e, b, "C06/mean-nd", || format!("[{}] n-D mean = {:?}, exact {:e}, error {:e} > bound {:e}: {:?}", T::NAME, got, want.to_f64(), e, b, c));
            }
            other => lx.fail("C06/mean-failed", || format!("n-D mean: {:?} on {:?}", other.map(|r| r.map(|x| x.to_f64_())), c)),
        }
        // integer axis forms: exact sums and the type's own division
        let di: Vec<i64> = (0..n).map(|i| ((i * 7 + c.fill * 3) % 11) as i64 - 4).collect();
        let wi: Vec<i64> = (0..ll).map(|k| ((k + c.fill) % 4) as i64 + if k == 0 { 1 } else { 0 }).collect();
        let hdi = Host::new(&c.shape, &di, &c.ldata, -99i64);
        let hwi = Host1::new(&wi, -c.wstep, 1, 55i64);
        let (vdi, vwi) = (hdi.view(), hwi.view());
        match (guarded(|| vdi.weighted_sum_axis(Axis(c.axis), &vwi)), guarded(|| vdi.weighted_mean_axis(Axis(c.axis), &vwi))) {
            (Ok(Ok(rs)), Ok(Ok(rm))) => {
                let (fs, fm): (Vec<i64>, Vec<i64>) = (rs.iter().cloned().collect(), rm.iter().cloned().collect());
                let wt: i64 = wi.iter().sum();
                for (j, lane) in lanes.iter().enumerate() {
                    if j >= fs.len() || j >= fm.len() {
                        break;
                    }
                    let es: i64 = lane.iter().zip(&wi).map(|(&i, &w)| di[i] * w).sum();
                    lx.check(fs[j] == es, "C06/int-weighted-sum-axis", || format!("i64 weighted_sum_axis lane {} = {}, exact {}; data {:?} weights {:?}; {:?}", j, fs[j], es, di, wi, c));
                    lx.check(fm[j] == es / wt, "C06/int-weighted-mean-axis", || format!("i64 weighted_mean_axis lane {} = {}, expected {} / {} = {}; {:?}", j, fm[j], es, wt, es / wt, c));
                }
            }
            (a, b) => lx.fail("C06/axis-failed", || format!("i64 axis forms failed: {:?} / {:?} on {:?}", a.map(|r| r.map(|_| ())), b.map(|r| r.map(|_| ())), c)),
        }
        // integer mean of the whole n-D array: exact sum, then the type's own division (no per-lane rounding)
        match guarded(|| SummaryStatisticsExt::mean(&vdi)) {
            Ok(Ok(g)) => {
                let es: i64 = di.iter().sum();
                lx.check(g == es / n as i64, "C06/int-mean-nd", || format!("i64 mean of the n-D array = {}, expected {} / {} = {}; data {:?}; {:?}", g, es, n, es / n as i64, di, c));
            }
            other => lx.fail("C06/mean-failed", || format!("i64 n-D mean: {:?} on {:?}", other, c)),
        }
        hash_of(&obs)
    });
    let _ = MultiInputError::EmptyInput;
}

#[derive(Debug, Clone)]
struct WCase {
    digits: Vec<u8>,
    ty: u8,
}

fn run_wide<T: Fl>(c: &WCase, lx: &mut Local) {
    let alpha: [f64; 7] = if T::NAME == "f32" { [1e-30, 1e-20, 3e-5, 1.0, 7e4, 1e20, 1e30] } else { [1e-300, 1e-160, 3e-5, 1.0, 7e4, 1e160, 1e300] };
    let n = c.digits.len();
    let xs: Vec<T> = c.digits.iter().map(|&d| T::of(alpha[d as usize])).collect();
    let xr = rats(&xs);
    let u = T::U;
    for st in [1isize, -1] {
        lx.single(|lx| {
            let h = Host1::new(&xs, st, 1, T::of(777.0));
            let v = h.view();
            let mut obs = Vec::new();
            // mean
            let want = fl::mean(&xr);
            let bound = c4(n) * u * fl::abs_sum(&xr).to_f64_up_abs() / n as f64;
            match guarded(|| SummaryStatisticsExt::mean(&v)) {
                Ok(Ok(g)) => {
                    let e = err_of(g.to_f64_(), &want);
                    lx.within(e, bound, "C06/mean-wide", || format!("[{}] mean of {:?} = {:?}, exact {:e}, error {:e} > bound {:e}", T::NAME, xs, g, want.to_f64(), e, bound));
                    obs.push(g.bits_());
                }
                other => lx.fail("C06/mean-failed", || format!("[{}] mean of {:?}: {:?}", T::NAME, xs, other.map(|r| r.map(|x| x.to_f64_())))),
            }
            // harmonic mean
            let recips: Vec<Rat> = xr.iter().map(|x| x.recip()).collect();
            let m = fl::mean(&recips);
            let hwant = m.recip();
            let rel_m = (n as f64 + 4.0) * u;
            let hb = 4.0 * (rel_m + 2.0 * u) * hwant.to_f64_up_abs();
            match guarded(|| v.harmonic_mean()) {
                Ok(Ok(g)) => {
                    let e = err_of(g.to_f64_(), &hwant);
                    lx.within(e, hb, "C06/harmonic-mean-wide", || format!("[{}] harmonic_mean of {:?} = {:?}, exact {:e}, error {:e} > bound {:e}", T::NAME, xs, g, hwant.to_f64(), e, hb));
                    obs.push(g.bits_());
                }
                other => lx.fail("C06/harmonic-mean-failed", || format!("[{}] harmonic_mean of {:?}: {:?}", T::NAME, xs, other.map(|r| r.map(|x| x.to_f64_())))),
            }
            // geometric mean: exp of the exactly averaged f64 logarithms (the product itself is far outside the float range)
            let lns: Vec<f64> = xs.iter().map(|x| x.to_f64_().ln()).collect();
            let mean_ln = (&sum(lns.iter().map(|&l| Rat::from_f64(l)).collect::<Vec<_>>().iter()) / &Rat::from_u(n)).to_f64();
            let gwant = mean_ln.exp();
            let mean_abs_ln = lns.iter().map(|l| l.abs()).sum::<f64>() / n as f64;
            let tol = 4.0 * (n as f64 + 8.0) * u * (1.0 + mean_abs_ln) * gwant;
            match guarded(|| v.geometric_mean()) {
                Ok(Ok(g)) => {
                    let e = (g.to_f64_() - gwant).abs();
                    lx.ratio("geometric_mean_wide", e / tol);
                    lx.within(e, tol, "C06/geometric-mean-wide", || format!("[{}] geometric_mean of {:?} = {:?}, reference {:e}, error {:e} > tolerance {:e}", T::NAME, xs, g, gwant, e, tol));
                    obs.push(g.bits_());
                }
                other => lx.fail("C06/geometric-mean-failed", || format!("[{}] geometric_mean of {:?}: {:?}", T::NAME, xs, other.map(|r| r.map(|x| x.to_f64_())))),
            }
            hash_of(&obs)
        });
    }
}

#[derive(Debug, Clone)]
struct SCase {
    n: usize,
    fill: u8,
    ty: u8,
}

fn sweep_data<T: Fl>(n: usize, fill: u8) -> (Vec<T>, Vec<T>) {
    let xs: Vec<T> = (0..n)
        .map(|i| {
            T::of(match fill {
                0 => ((i * 7919) % 1009) as f64 * 0.37 - 100.0,
                1 => 1e6 + (i % 17) as f64 * 0.1,
                2 => (if i % 2 == 0 { 1.0 } else { -1.0 }) * (1.0 + (i % 13) as f64 * 1e3),
                _ => 0.5 + (i % 29) as f64 * 0.25, // positive (harmonic / geometric)
            })
        })
        .collect();
    let ws: Vec<T> = (0..n).map(|i| T::of(0.25 + ((i * 3) % 5) as f64 + if i % 11 == 0 { 0.125 } else { 0.0 })).collect();
    (xs, ws)
}

/// every routine on one long 1-D array (size thresholds: blocks, unrolling, pairwise summation)
fn run_sweep<T: Fl>(c: &SCase, lx: &mut Local) {
    let n = c.n;
    let (xs, ws) = sweep_data::<T>(n, c.fill);
    let (xr, wr) = (rats(&xs), rats(&ws));
    let u = T::U;
    lx.single(|lx| {
        let step = [1isize, -1, 2][(n + c.fill as usize) % 3];
        let hx = Host1::new(&xs, step, 1, T::of(777.0));
        let hw = Host1::new(&ws, -step, 1, T::of(555.0));
        let (vx, vw) = (hx.view(), hw.view());
        let mut obs = Vec::new();
        if n == 0 {
            lx.check(matches!(guarded(|| SummaryStatisticsExt::mean(&vx)), Ok(Err(_))), "C06/missing-error", || "mean of empty".to_string());
            return 0;
        }
        let want = fl::mean(&xr);
        let b = c4(n) * u * fl::abs_sum(&xr).to_f64_up_abs() / n as f64;
        match guarded(|| SummaryStatisticsExt::mean(&vx)) {
            Ok(Ok(g)) => {
                let e = err_of(g.to_f64_(), &want);
                lx.ratio("mean_long", e / b.max(f64::MIN_POSITIVE));
                lx.within(e, b, "C06/mean-long", || format!("[{}] mean of {} elements (fill {}, stride {}) = {:?}, exact {:e}, error {:e} > bound {:e}", T::NAME, n, c.fill, step, g, want.to_f64(), e, b));
                obs.push(g.bits_());
            }
            other => lx.fail("C06/mean-failed", || format!("[{}] mean of {} elements: {:?}", T::NAME, n, other.map(|r| r.map(|x| x.to_f64_())))),
        }
        let (s, a) = fl::weighted_sum(&xr, &wr);
        let sb = c4(n) * u * a.to_f64_up_abs();
        match guarded(|| vx.weighted_sum(&vw)) {
            Ok(Ok(g)) => {
                let e = err_of(g.to_f64_(), &s);
                lx.within(e, sb, "C06/weighted-sum-long", || format!("[{}] weighted_sum of {} elements (fill {}) = {:?}, exact {:e}, error {:e} > bound {:e}", T::NAME, n, c.fill, g, s.to_f64(), e, sb));
                obs.push(g.bits_());
            }
            other => lx.fail("C06/weighted-sum-failed", || format!("[{}] weighted_sum of {} elements: {:?}", T::NAME, n, other.map(|r| r.map(|x| x.to_f64_())))),
        }
        let wt = sum(wr.iter());
        let mw = &s / &wt;
        let mb = 2.0 * c4(n) * u * (a.to_f64_up_abs() / wt.to_f64());
        match guarded(|| vx.weighted_mean(&vw)) {
            Ok(Ok(g)) => {
                let e = err_of(g.to_f64_(), &mw);
                lx.within(e, mb, "C06/weighted-mean-long", || format!("[{}] weighted_mean of {} elements (fill {}) = {:?}, exact {:e}, error {:e} > bound {:e}", T::NAME, n, c.fill, g, mw.to_f64(), e, mb));
            }
            other => lx.fail("C06/weighted-mean-failed", || format!("[{}] weighted_mean of {} elements: {:?}", T::NAME, n, other.map(|r| r.map(|x| x.to_f64_())))),
        }
        if c.fill == 3 {
            let recips: Vec<Rat> = xr.iter().map(|x| x.recip()).collect();
            let hw_ = fl::mean(&recips).recip();
            let hb = 4.0 * ((n as f64 + 4.0) * u + 2.0 * u) * hw_.to_f64_up_abs();
            match guarded(|| vx.harmonic_mean()) {
                Ok(Ok(g)) => {
                    let e = err_of(g.to_f64_(), &hw_);
                    lx.within(e, hb, "C06/harmonic-mean-long", || format!("[{}] harmonic_mean of {} elements = {:?}, exact {:e}, error {:e} > bound {:e}", T::NAME, n, g, hw_.to_f64(), e, hb));
                }
                other => lx.fail("C06/harmonic-mean-failed", || format!("harmonic_mean of {} elements: {:?}", n, other.map(|r| r.map(|x| x.to_f64_())))),
            }
            let lns: Vec<f64> = xs.iter().map(|x| x.to_f64_().ln()).collect();
            let mean_ln = (&sum(lns.iter().map(|&l| Rat::from_f64(l)).collect::<Vec<_>>().iter()) / &Rat::from_u(n)).to_f64();
            let gw = mean_ln.exp();
            let tol = 4.0 * (n as f64 + 8.0) * u * (1.0 + lns.iter().map(|l| l.abs()).sum::<f64>() / n as f64) * gw;
            match guarded(|| vx.geometric_mean()) {
                Ok(Ok(g)) => {
                    lx.within((g.to_f64_() - gw).abs(), tol, "C06/geometric-mean-long", || format!("[{}] geometric_mean of {} elements = {:?}, reference {:e}, tolerance {:e}", T::NAME, n, g, gw, tol));
                }
                other => lx.fail("C06/geometric-mean-failed", || format!("geometric_mean of {} elements: {:?}", n, other.map(|r| r.map(|x| x.to_f64_())))),
            }
        }
        hash_of(&obs)
    });
    // long lanes in 2-D: (2, n) along axis 1 and (n, 2) along axis 0
    if n >= 2 && n <= 300 {
        for (shape, axis) in [(vec![2usize, n], 1usize), (vec![n, 2], 0)] {
            lx.single(|lx| {
                let tot = 2 * n;
                let data: Vec<T> = (0..tot).map(|i| T::of(((i * 31 + c.fill as usize) % 23) as f64 * 0.5 - 3.0)).collect();
                let lay = all_layouts(2, &[1, -1])[(n + c.fill as usize) % 8].clone();
                let hd = Host::new(&shape, &data, &lay, T::of(777.0));
                let hw = Host1::new(&ws, if n % 2 == 0 { 1 } else { -1 }, 1, T::of(555.0));
                let lanes = lanes_flat(&shape, axis);
                match (guarded(|| hd.view().weighted_sum_axis(Axis(axis), &hw.view())), guarded(|| hd.view().weighted_mean_axis(Axis(axis), &hw.view()))) {
                    (Ok(Ok(rs)), Ok(Ok(rm))) => {
                        let (fs, fm): (Vec<T>, Vec<T>) = (rs.iter().cloned().collect(), rm.iter().cloned().collect());
                        for (j, lane) in lanes.iter().enumerate() {
                            if j >= fs.len() || j >= fm.len() {
                                lx.fail("C06/axis-shape", || format!("axis result too short for shape {:?}", shape));
                                break;
                            }
                            let lr = rats(&lane.iter().map(|&i| data[i]).collect::<Vec<T>>());
                            let (s, a) = fl::weighted_sum(&lr, &wr);
                            let sb = c4(n) * u * a.to_f64_up_abs();
                            let e = err_of(fs[j].to_f64_(), &s);
                            lx.within(e, sb, "C06/weighted-sum-axis-long", || format!("[{}] weighted_sum_axis over a lane of {} elements (shape {:?} axis {}, lane {}) = {:?}, exact {:e}, error {:e} > bound {:e}", T::NAME, n, shape, axis, j, fs[j], s.to_f64(), e, sb));
                            let wt = sum(wr.iter());
                            let want = &s / &wt;
                            let mb = 2.0 * c4(n) * u * (a.to_f64_up_abs() / wt.to_f64());
                            let e = err_of(fm[j].to_f64_(), &want);
                            lx.within(e, mb, "C06/weighted-mean-axis-long", || format!("[{}] weighted_mean_axis over a lane of {} elements (shape {:?} axis {}, lane {}) = {:?}, exact {:e}", T::NAME, n, shape, axis, j, fm[j], want.to_f64()));
                        }
                        fs.len() as u64
                    }
                    (a, b) => {
                        lx.fail("C06/axis-failed", || format!("axis forms failed on shape {:?}: {:?} / {:?}", shape, a.map(|r| r.map(|_| ())), b.map(|r| r.map(|_| ()))));
                        0
                    }
                }
            });
        }
    }
}

/// Both operands of a weighted routine are views of ONE buffer: same first element, different
/// strides / a matrix and its transpose / overlapping windows / a lane of the matrix as weights.
#[derive(Debug, Clone)]
struct AliasCase {
    digits: Vec<u8>,
    kind: u8,
}

fn run_alias(c: &AliasCase, lx: &mut Local) {
    const V: [f64; 4] = [-1.5, 0.5, 2.0, 3.25];
    const VI: [i64; 4] = [-1, 1, 2, 3];
    let bf: Vec<f64> = c.digits.iter().map(|&d| V[d as usize]).collect();
    let bi: Vec<i64> = c.digits.iter().map(|&d| VI[d as usize]).collect();
    let m = bf.len();
    let u = f64::EPSILON / 2.0;
    lx.single(|lx| {
        let af = Array1::from(bf.clone());
        let ai = Array1::from(bi.clone());
        let mut obs: Vec<u64> = Vec::new();
        // (name, float pair, int pair) as logical vectors + the calls
        let mut judge = |what: String, xf: Vec<f64>, wf: Vec<f64>, gotf: Result<Result<f64, MultiInputError>, String>, gotm: Result<Result<f64, MultiInputError>, String>, xi: Vec<i64>, wi: Vec<i64>, goti: Result<Result<i64, MultiInputError>, String>, lx: &mut Local| {
            let n = xf.len();
            let (s, a) = fl::weighted_sum(&rats(&xf), &rats(&wf));
            let sb = c4(n) * u * a.to_f64_up_abs();
            match gotf {
                Ok(Ok(g)) => {
                    let e = err_of(g, &s);
                    lx.within(e, sb, "C06/weighted-sum-aliasing", || format!("{}: weighted_sum = {:e}, exact {:e} (data {:?}, weights {:?})", what, g, s.to_f64(), xf, wf));
                    obs.push(g.to_bits());
                }
                other => lx.fail("C06/weighted-sum-failed", || format!("{}: {:?}", what, other)),
            }
            let wtot = sum(rats(&wf).iter());
            if !wtot.is_zero() {
                let want = &s / &wtot;
                let b = 2.0 * c4(n) * u * (a.to_f64_up_abs() / wtot.to_f64().abs());
                match gotm {
                    Ok(Ok(g)) => {
                        let e = err_of(g, &want);
                        lx.within(e, b, "C06/weighted-mean-aliasing", || format!("{}: weighted_mean = {:e}, exact {:e} (data {:?}, weights {:?})", what, g, want.to_f64(), xf, wf));
                    }
                    other => lx.fail("C06/weighted-mean-failed", || format!("{}: {:?}", what, other)),
                }
            }
            let wanti: i64 = xi.iter().zip(&wi).map(|(x, w)| x * w).sum();
            match goti {
                Ok(Ok(g)) => {
                    lx.check(g == wanti, "C06/int-weighted-sum-aliasing", || format!("{}: i64 weighted_sum = {}, exact {} (data {:?}, weights {:?})", what, g, wanti, xi, wi));
                }
                other => lx.fail("C06/weighted-sum-failed", || format!("{} (i64): {:?}", what, other)),
            }
        };
        match c.kind {
            0 => {
                let n = (m + 1) / 2;
                let (x, w) = (af.slice(ndarray::s![..n]), af.slice(ndarray::s![..2 * n - 1;2]));
                let (xi, wi) = (ai.slice(ndarray::s![..n]), ai.slice(ndarray::s![..2 * n - 1;2]));
                judge(format!("buf[..{}] weighted by buf[..{};2] of one buffer", n, 2 * n - 1), x.to_vec(), w.to_vec(), guarded(|| x.weighted_sum(&w)), guarded(|| x.weighted_mean(&w)), xi.to_vec(), wi.to_vec(), guarded(|| xi.weighted_sum(&wi)), lx);
                judge(format!("buf[..{};2] weighted by buf[..{}] of one buffer", 2 * n - 1, n), w.to_vec(), x.to_vec(), guarded(|| w.weighted_sum(&x)), guarded(|| w.weighted_mean(&x)), wi.to_vec(), xi.to_vec(), guarded(|| wi.weighted_sum(&xi)), lx);
            }
            1 => {
                let (x, w) = (af.slice(ndarray::s![..m - 1]), af.slice(ndarray::s![1..]));
                let (xi, wi) = (ai.slice(ndarray::s![..m - 1]), ai.slice(ndarray::s![1..]));
                judge("overlapping windows buf[..m-1] weighted by buf[1..]".to_string(), x.to_vec(), w.to_vec(), guarded(|| x.weighted_sum(&w)), guarded(|| x.weighted_mean(&w)), xi.to_vec(), wi.to_vec(), guarded(|| xi.weighted_sum(&wi)), lx);
            }
            2 => {
                let (x, w) = (af.view(), af.slice(ndarray::s![..;-1]));
                let (xi, wi) = (ai.view(), ai.slice(ndarray::s![..;-1]));
                judge("a buffer weighted by its own reversed view".to_string(), x.to_vec(), w.to_vec(), guarded(|| x.weighted_sum(&w)), guarded(|| x.weighted_mean(&w)), xi.to_vec(), wi.to_vec(), guarded(|| xi.weighted_sum(&wi)), lx);
                judge("a buffer weighted by itself".to_string(), x.to_vec(), x.to_vec(), guarded(|| x.weighted_sum(&x)), guarded(|| x.weighted_mean(&x)), xi.to_vec(), xi.to_vec(), guarded(|| xi.weighted_sum(&xi)), lx);
            }
            _ => {
                let k = (m as f64).sqrt() as usize;
                let sf = Array2::from_shape_vec((k, k), bf[..k * k].to_vec()).unwrap();
                let si = Array2::from_shape_vec((k, k), bi[..k * k].to_vec()).unwrap();
                let (x, w) = (sf.view(), sf.t());
                let (xi, wi) = (si.view(), si.t());
                judge("a square matrix weighted by its own transpose".to_string(), x.iter().cloned().collect(), w.iter().cloned().collect(), guarded(|| x.weighted_sum(&w)), guarded(|| x.weighted_mean(&w)), xi.iter().cloned().collect(), wi.iter().cloned().collect(), guarded(|| xi.weighted_sum(&wi)), lx);
                judge("the transpose weighted by the matrix".to_string(), w.iter().cloned().collect(), x.iter().cloned().collect(), guarded(|| w.weighted_sum(&x)), guarded(|| w.weighted_mean(&x)), wi.iter().cloned().collect(), xi.iter().cloned().collect(), guarded(|| wi.weighted_sum(&xi)), lx);
                // per-axis forms with a lane of the matrix itself as the weights (same first element)
                for axis in 0..2usize {
                    let wl = if axis == 0 { sf.column(0) } else { sf.row(0) };
                    let wli = if axis == 0 { si.column(0) } else { si.row(0) };
                    let gs = guarded(|| sf.view().weighted_sum_axis(Axis(axis), &wl));
                    let gi = guarded(|| si.view().weighted_sum_axis(Axis(axis), &wli));
                    let gm = guarded(|| sf.view().weighted_mean_axis(Axis(axis), &wl));
                    for j in 0..k {
                        let lane: Vec<f64> = (0..k).map(|t| if axis == 0 { sf[[t, j]] } else { sf[[j, t]] }).collect();
                        let lanei: Vec<i64> = (0..k).map(|t| if axis == 0 { si[[t, j]] } else { si[[j, t]] }).collect();
                        let pick = |r: &Result<Result<Array1<f64>, MultiInputError>, String>| -> Result<Result<f64, MultiInputError>, String> {
                            match r {
                                Ok(Ok(a)) if a.len() == k => Ok(Ok(a[j])),
                                Ok(Ok(a)) => Err(format!("result has {} entries", a.len())),
                                Ok(Err(e)) => Ok(Err(e.clone())),
                                Err(m) => Err(m.clone()),
                            }
                        };
                        let picki: Result<Result<i64, MultiInputError>, String> = match &gi {
                            Ok(Ok(a)) if a.len() == k => Ok(Ok(a[j])),
                            Ok(Ok(a)) => Err(format!("result has {} entries", a.len())),
                            Ok(Err(e)) => Ok(Err(e.clone())),
                            Err(m) => Err(m.clone()),
                        };
                        judge(format!("weighted_*_axis({}) of a square matrix with its own first {} as weights, lane {}", axis, if axis == 0 { "column" } else { "row" }, j), lane, wl.to_vec(), pick(&gs), pick(&gm), lanei, wli.to_vec(), picki, lx);
                    }
                }
            }
        }
        hash_of(&obs)
    });
}

fn main() {
    let mut rep = Report::new("C06");
    rep.rule = "case = (data array over the alphabet, offset, scale, element type) with weight vectors and stride pairs inside (1-D); (shape, axis, data layout, weights stride, fill) in n-D; non-trivial = length >= 2".into();
    rep.assume("floating-point inputs are taken exactly (every float is a dyadic rational); the reference value is computed in exact rational arithmetic; bounds: mean 4(n+4)u*sum|x|/n, weighted_sum 4(n+4)u*sum|w x|, weighted_mean 8(n+4)u*sum|w x|/W, harmonic first-order propagated, geometric 4(n+8)u(1+mean|ln x|) relative");
    rep.assume("exhaustive over the stated alphabets, not over all floats; overflow/underflow regimes are outside the alphabets");
    let nmax = rep.cfg.pick(5, 6);
    let mut cases: Vec<FCase> = Vec::new();
    for n in 0..=nmax {
        for d in sequences(n, 7) {
            for off in 0..3u8 {
                for scale in 0..2u8 {
                    for ty in 0..2u8 {
                        // n = nmax: thin the offset x scale x type product (every data array still occurs in two configurations)
                        if n >= 5 && (off as usize + scale as usize * 2 + ty as usize + d.iter().map(|&x| x as usize).sum::<usize>()) % 4 >= 2 {
                            continue;
                        }
                        if n == 0 && (off > 0 || scale > 0) {
                            continue;
                        }
                        cases.push(FCase { digits: d.clone(), off, scale, ty });
                    }
                }
            }
        }
    }
    rep.run_sub(
        "float-1d",
        &format!("every array of length 0..={} over {:?} at offsets {:?} (f32: 0, 2^10, 2^16) and scales {:?}, f64 and f32 (length >= 5: half of the offset x scale x type configurations per array); mean/harmonic/geometric on strides {{1,2,-1}}; weighted_sum / weighted_mean with every weight vector over {:?} for n<=3 (16 resp. 8 rotating vectors for n=4, n>=5) on 6 stride pairs", nmax, DATA, OFFSETS, SCALES, WEIGHTS),
        cases.into_iter(),
        |c, lx| {
            lx.nontrivial(c.digits.len() >= 2);
            if c.ty == 0 {
                run_float::<f64>(c, lx)
            } else {
                run_float::<f32>(c, lx)
            }
        },
    );
    let wmax = rep.cfg.pick(5, 6);
    let wcases = (1..=wmax).flat_map(|n| sequences(n, 7)).flat_map(|d| (0..2u8).map(move |ty| WCase { digits: d.clone(), ty }));
    rep.run_sub(
        "wide-magnitudes",
        &format!("every array of length 1..={} over {{1e-300, 1e-160, 3e-5, 1, 7e4, 1e160, 1e300}} (f32: 1e-30 .. 1e30): mean, harmonic_mean, geometric_mean on contiguous and reversed views (sums and means stay representable; products do not)", wmax),
        wcases,
        |c, lx| {
            lx.nontrivial(c.digits.len() >= 2);
            if c.ty == 0 {
                run_wide::<f64>(c, lx)
            } else {
                run_wide::<f32>(c, lx)
            }
        },
    );
    let imax = rep.cfg.pick(5, 6);
    let icases = (0..=imax).flat_map(|n| sequences(n, 5)).flat_map(|d| (0..3u8).map(move |ty| ICase { digits: d.clone(), ty }));
    rep.run_sub(
        "int-1d",
        &format!("every array of length 0..={} over 5-value alphabets for i32 / i64 (values beyond 2^31) / u8 x every weight vector over {{0,1,2,5}}: exact integer sums and the type's own division", imax),
        icases,
        |c, lx| {
            lx.nontrivial(c.digits.len() >= 2);
            match c.ty {
                0 => run_i32(c, lx),
                1 => run_i64(c, lx),
                _ => run_u8(c, lx),
            }
        },
    );
    let smax = rep.cfg.pick(1100, 4100);
    let scases = nsmc::patterns::sizes(72, smax).into_iter().flat_map(|n| (0..4u8).flat_map(move |fill| (0..2u8).map(move |ty| SCase { n, fill, ty })));
    rep.run_sub(
        "size-sweep",
        &format!("every length 0..=72 and the neighbourhoods of block / unrolling thresholds (2^k-1, 2^k, 2^k+1, 3*2^(k-1) +-1, multiples of 100) up to {} x 4 fills (scattered, 1e6 offset, alternating large signs, positive) x f64/f32: mean, weighted_sum, weighted_mean (harmonic / geometric mean on the positive fill) on contiguous / reversed / stepped views; weighted_sum_axis / weighted_mean_axis over lanes of that length in (2,n) and (n,2) arrays for n <= 300", smax),
        scases,
        |c, lx| {
            lx.nontrivial(c.n >= 2);
            if c.ty == 0 {
                run_sweep::<f64>(c, lx)
            } else {
                run_sweep::<f32>(c, lx)
            }
        },
    );
    // narrow integers: the per-axis forms against the whole-array routine on the lane, where the
    // documented left-to-right sum stays in range but other groupings of the same terms would not
    rep.run_sub(
        "narrow-integer-axis-forms",
        "all lanes of length 4 over {-100, 0, 27, 100} as i8 (and {0, 27, 100, 200} as u8), as the columns / rows of a 4x2 / 2x4 array next to a fixed second lane, unit weights and weights [1, 1, 0, 1]: wherever weighted_sum / weighted_mean of the lane return (in a build with overflow checks: do not panic), weighted_sum_axis / weighted_mean_axis must return the same value for that lane",
        sequences(4, 4).flat_map(|d| (0..4u8).map(move |v| (d.clone(), v))),
        |(digits, variant), lx| {
            lx.nontrivial(true);
            let axis = (*variant % 2) as usize;
            let wsel = *variant / 2;
            lx.single(|lx| {
                let mut obs = Vec::new();
                macro_rules! go {
                    ($t:ty, $tab:expr, $second:expr) => {{
                        let lane: Vec<$t> = digits.iter().map(|&d| $tab[d as usize]).collect();
                        let second: Vec<$t> = $second.to_vec();
                        let w: Vec<$t> = if wsel == 0 { vec![1, 1, 1, 1] } else { vec![1, 1, 0, 1] };
                        // lanes run along `axis`: shape (4,2) for axis 0, (2,4) for axis 1
                        let arr: Array2<$t> = if axis == 0 { Array2::from_shape_fn((4, 2), |(i, j)| if j == 0 { lane[i] } else { second[i] }) } else { Array2::from_shape_fn((2, 4), |(j, i)| if j == 0 { lane[i] } else { second[i] }) };
                        let wa = Array1::from(w.clone());
                        // the axis form is only asked not to panic when the whole-array routine returns on every lane
                        let all_return = [&lane, &second].iter().all(|l| {
                            let la = Array1::from((*l).clone());
                            guarded(|| (la.weighted_sum(&wa), la.weighted_mean(&wa))).is_ok()
                        });
                        for (j, l) in [&lane, &second].iter().enumerate() {
                            if !all_return {
                                lx.skip("narrow integers: the whole-array routine overflows on a lane of this array (outside the domain)");
                                break;
                            }
                            let la = Array1::from((*l).clone());
                            let whole = guarded(|| (la.weighted_sum(&wa), la.weighted_mean(&wa)));
                            let axisr = guarded(|| (arr.weighted_sum_axis(Axis(axis), &wa), arr.weighted_mean_axis(Axis(axis), &wa)));
                            match (whole, axisr) {
                                (Err(_), _) => lx.skip("narrow integers: the whole-array routine overflows on this lane (outside the domain)"),
                                (Ok((Ok(s), m)), Ok((Ok(sa), ma))) => {
                                    lx.check(sa.len() == 2 && sa[j] == s, "C06/int-weighted-sum-axis", || format!("[{}] weighted_sum_axis({}) lane {} = {:?} but weighted_sum of the lane {:?} with {:?} = {}", stringify!($t), axis, j, sa, l, w, s));
                                    if let (Ok(m), Ok(ma)) = (m, ma) {
                                        lx.check(ma.len() == 2 && ma[j] == m, "C06/int-weighted-mean-axis", || format!("[{}] weighted_mean_axis({}) lane {} = {:?} but weighted_mean of the lane {:?} with {:?} = {}", stringify!($t), axis, j, ma, l, w, m));
                                    }
                                    obs.push(s as i64);
                                }
                                (Ok(_), Err(msg)) => lx.fail("C06/int-weighted-sum-axis", || format!("[{}] the axis form panicked ({}) although weighted_sum of every lane returns: lanes {:?} / {:?}, weights {:?}, axis {}", stringify!($t), msg, lane, second, w, axis)),
                                (Ok(a), Ok(b)) => lx.fail("C06/axis-failed", || format!("[{}] unexpected errors {:?} / {:?}", stringify!($t), a.0.is_ok(), b.0.is_ok())),
                            }
                        }
                    }};
                }
                go!(i8, [-100i8, 0, 27, 100], [3i8, -4, 5, 1]);
                go!(u8, [0u8, 27, 100, 200], [3u8, 4, 5, 1]);
                hash_of(&obs)
            });
        },
    );
    // element counts that a single-precision float cannot hold (stride-0 broadcast views: no memory needed)
    rep.run_sub(
        "very-long-arrays",
        "stride-0 broadcast views of 2^24 + 1 and 2^24 + 3 elements: mean of constant i64 (16777217, 5) and f64 (1.0) data is that constant; weighted_mean with unit weights likewise",
        vec![(1usize << 24) + 1, (1 << 24) + 3].into_iter(),
        |n, lx| {
            lx.nontrivial(true);
            lx.single(|lx| {
                let mut obs = Vec::new();
                for c in [16_777_217i64, 5] {
                    let cell = ndarray::arr0(c);
                    let v = cell.broadcast(*n).unwrap();
                    match guarded(|| SummaryStatisticsExt::mean(&v)) {
                        Ok(Ok(m)) => {
                            lx.check(m == c, "C06/int-mean-long", || format!("mean of {} copies of {} (i64) = {}", n, c, m));
                            obs.push(m as u64);
                        }
                        other => lx.fail("C06/mean-failed", || format!("mean of {} i64 elements: {:?}", n, other)),
                    }
                }
                let cell = ndarray::arr0(1.0f64);
                let v = cell.broadcast(*n).unwrap();
                match guarded(|| (SummaryStatisticsExt::mean(&v), v.weighted_mean(&v))) {
                    Ok((Ok(m), Ok(wm))) => {
                        lx.check(m == 1.0 && wm == 1.0, "C06/mean-long", || format!("mean / weighted_mean of {} ones (f64) = {:e} / {:e}", n, m, wm));
                        obs.push(m.to_bits());
                    }
                    other => lx.fail("C06/mean-failed", || format!("mean of {} f64 elements: {:?}", n, other.map(|_| ()))),
                }
                hash_of(&obs)
            });
        },
    );
    // operands that alias each other
    let acases = (3..=5usize)
        .flat_map(|m| sequences(m, 4).flat_map(move |d| (0..3u8).map(move |kind| AliasCase { digits: d.clone(), kind })))
        .chain(sequences(4, 4).map(|d| AliasCase { digits: d, kind: 3 }))
        .chain(sequences(9, 3).map(|d| AliasCase { digits: d, kind: 3 }));
    rep.run_sub(
        "aliasing-operands",
        "data and weights are views of ONE buffer: all sequences over 4 values of length 3..=5 as (buf[..n], buf[..2n-1;2]) in both roles, overlapping windows, a buffer against its reversed view and against itself; every 2x2 matrix over 4 values and every 3x3 matrix over 3 values against its own transpose (both roles), and weighted_sum_axis / weighted_mean_axis with the matrix's own first column / row as weights; f64 against the exact value, i64 exactly",
        acases,
        |c, lx| {
            lx.nontrivial(c.digits.iter().any(|&d| d != c.digits[0]));
            run_alias(c, lx)
        },
    );
    let thorough = rep.cfg.thorough();
    let shapes: Vec<Vec<usize>> = vec![vec![1, 1], vec![1, 3], vec![3, 1], vec![2, 3], vec![3, 2], vec![3, 2, 2], vec![2, 2, 3], vec![2, 2, 2, 2], vec![2, 3, 1, 2], vec![2, 1, 2, 2, 2]];
    let mut ncases: Vec<NCase> = Vec::new();
    for shape in &shapes {
        let d = shape.len();
        for axis in 0..d {
            // 4-D and 5-D: a covering subset of the layouts (every axis permutation, every step on every axis)
            let layouts = if d <= 3 { all_layouts(d, &[1, 2, -1, -2]) } else { nsmc::layouts::covering_layouts(d, &[1, 2, -1, -2]) };
            for (li, l) in layouts.into_iter().enumerate() {
                let nf = if thorough { 12 } else { 6 };
                for fill in 0..nf {
                    let wstep = [1isize, -1, 2, -3][(li + fill) % 4];
                    ncases.push(NCase { shape: shape.clone(), axis, ldata: l.clone(), wstep, fill, ty: ((li + fill) % 2) as u8 });
                }
            }
        }
    }
    rep.run_sub(
        "n-dimensional",
        &format!("shapes {:?} x every axis x all data layouts (4-D, 5-D: covering subset) x weights strides {{1,-1,2,-3}} x {} fills (mixed signs, 1e6 offsets), f64/f32 alternating: weighted_sum_axis, weighted_mean_axis per lane vs exact and vs the whole-array routine on the lane; whole-array weighted_sum with the weights array in the opposite layout; mean", shapes, if thorough { 12 } else { 6 }),
        ncases.into_iter(),
        |c, lx| {
            lx.nontrivial(true);
            if c.ty == 0 {
                run_nd::<f64>(c, lx)
            } else {
                run_nd::<f32>(c, lx)
            }
        },
    );
    rep.finish();
}
