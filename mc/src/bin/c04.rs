//! C04 — NaN-stripped views are sound for every stride and element type.
use ndarray::prelude::*;
use ndarray_stats::interpolate::{Higher, Lower, Midpoint, Nearest};
use ndarray_stats::{MaybeNan, MaybeNanExt, QuantileExt};
use noisy_float::types::{n32, n64, N32, N64};
use nsmc::layouts::{all_layouts, guards_intact, lanes_flat, Host, Host1, Layout};
use nsmc::*;
use std::fmt::Debug;

pub trait MN: MaybeNan + Clone + Debug + Send + Sync + 'static {
    const NAME: &'static str;
    fn mk(missing: bool, k: usize) -> Self;
    /// total key: missing -> i128::MIN, otherwise an injective image of the value
    fn key(&self) -> i128;
    fn nn_to_self(x: &Self::NotNan) -> Self;
    /// exact bit pattern (distinguishes NaN payloads / signs); defaults to the key
    fn bits(&self) -> i128 {
        self.key()
    }
    /// infinite float (arithmetic between two of them is NaN by IEEE rules)
    fn is_inf(&self) -> bool {
        false
    }
    /// value of a non-missing element as f64 (exact for every test value): the harness's own order,
    /// independent of the `Ord` of the not-NaN wrapper under test
    fn rank(&self) -> f64;
}

macro_rules! mn_float {
    ($t:ty, $name:expr, $bits:ty) => {
        impl MN for $t {
            const NAME: &'static str = $name;
            fn mk(missing: bool, k: usize) -> Self {
                if missing {
                    // NaNs with distinct payloads and alternating sign: "the same elements" must survive
                    let nan = <$t>::NAN.to_bits() | ((k % 97 + 1) as $bits);
                    let v = <$t>::from_bits(nan);
                    if k % 2 == 1 {
                        -v
                    } else {
                        v
                    }
                } else if k % 7 == 5 {
                    <$t>::INFINITY
                } else if k % 7 == 6 {
                    <$t>::NEG_INFINITY
                } else {
                    k as $t * 1.5 - 2.0
                }
            }
            fn bits(&self) -> i128 {
                self.to_bits() as i128
            }
            fn is_inf(&self) -> bool {
                self.is_infinite()
            }
            fn rank(&self) -> f64 {
                *self as f64
            }
            fn key(&self) -> i128 {
                // the float's own test, not `MaybeNan::is_nan` (which is the code under test and would
                // otherwise be picked by method resolution on `&self`)
                if <$t>::is_nan(*self) {
                    i128::MIN
                } else {
                    self.to_bits() as i128
                }
            }
            fn nn_to_self(x: &Self::NotNan) -> Self {
                x.raw()
            }
        }
    };
}
mn_float!(f64, "f64", u64);
mn_float!(f32, "f32", u32);

macro_rules! mn_opt_int {
    ($t:ty, $name:expr) => {
        impl MN for Option<$t> {
            const NAME: &'static str = $name;
            fn mk(missing: bool, k: usize) -> Self {
                if missing {
                    None
                } else {
                    Some(k as $t + 1)
                }
            }
            fn key(&self) -> i128 {
                match self {
                    None => i128::MIN,
                    Some(v) => *v as i128,
                }
            }
            fn rank(&self) -> f64 {
                self.map(|v| v as f64).unwrap_or(f64::NAN)
            }
            fn nn_to_self(x: &Self::NotNan) -> Self {
                x.clone().into_inner()
            }
        }
    };
}
mn_opt_int!(u8, "Option<u8>");
mn_opt_int!(u16, "Option<u16>");
mn_opt_int!(u32, "Option<u32>");
mn_opt_int!(u64, "Option<u64>");
mn_opt_int!(u128, "Option<u128>");
mn_opt_int!(i8, "Option<i8>");
mn_opt_int!(i16, "Option<i16>");
mn_opt_int!(i32, "Option<i32>");
mn_opt_int!(i64, "Option<i64>");
mn_opt_int!(i128, "Option<i128>");

impl MN for Option<N64> {
    const NAME: &'static str = "Option<N64>";
    fn mk(missing: bool, k: usize) -> Self {
        if missing {
            None
        } else {
            Some(n64(k as f64 * 0.5 - 1.0))
        }
    }
    fn key(&self) -> i128 {
        match self {
            None => i128::MIN,
            Some(v) => v.raw().to_bits() as i128,
        }
    }
    fn rank(&self) -> f64 {
        self.map(|v| v.raw() as f64).unwrap_or(f64::NAN)
    }
    fn nn_to_self(x: &Self::NotNan) -> Self {
        x.clone().into_inner()
    }
}
impl MN for Option<N32> {
    const NAME: &'static str = "Option<N32>";
    fn mk(missing: bool, k: usize) -> Self {
        if missing {
            None
        } else {
            Some(n32(k as f32 * 0.5 - 1.0))
        }
    }
    fn key(&self) -> i128 {
        match self {
            None => i128::MIN,
            Some(v) => v.raw().to_bits() as i128,
        }
    }
    fn rank(&self) -> f64 {
        self.map(|v| v.raw() as f64).unwrap_or(f64::NAN)
    }
    fn nn_to_self(x: &Self::NotNan) -> Self {
        x.clone().into_inner()
    }
}

#[derive(Debug, Clone)]
struct Case {
    len: usize,
    mask: u32,
    step: isize,
    ty: u8,
}

/// One application of remove_nan_mut on a fresh host; returns (values, element addresses relative to parent base).
fn apply_once<A: MN>(h: &mut Host1<A>) -> Result<(Vec<A>, Vec<isize>), String>
where
    A::NotNan: Clone,
{
    let base = h.parent.as_ptr() as isize;
    let sz = std::mem::size_of::<A>() as isize;
    guarded(|| {
        let v = A::remove_nan_mut(h.view_mut());
        let vals: Vec<A> = v.iter().map(|x| A::nn_to_self(x)).collect();
        let addrs: Vec<isize> = v.iter().map(|x| (x as *const A::NotNan as isize - base) / sz).collect();
        (vals, addrs)
    })
}

fn run_1d<A: MN>(c: &Case, lx: &mut Local)
where
    A::NotNan: Clone,
{
    let n = c.len;
    let data: Vec<A> = (0..n).map(|i| A::mk(c.mask >> i & 1 == 1, i)).collect();
    let mut want: Vec<i128> = data.iter().filter(|x| x.key() != i128::MIN).map(|x| x.key()).collect();
    want.sort();
    let desc = || format!("{} mask {:0w$b} (bit i = element i missing) len {} step {}", A::NAME, c.mask, n, c.step, w = n.max(1));
    // sentinel alternates between a missing and a non-missing value
    let sentinel = A::mk(c.mask % 2 == 1, 200);
    lx.single(|lx| {
        let mut h = Host1::new(&data, c.step, n + 2, sentinel.clone());
        let before: Vec<i128> = h.memory().iter().map(|x| x.key()).collect();
        let offs = h.view_offsets();
        let r = apply_once(&mut h);
        let (vals, addrs) = match r {
            Err(m) => {
                lx.fail("C04/panic", || format!("remove_nan_mut panicked on {}: {}", desc(), m));
                return 0;
            }
            Ok(x) => x,
        };
        lx.check(vals.len() == want.len(), "C04/length", || format!("{}: returned {} elements, {} are non-missing", desc(), vals.len(), want.len()));
        lx.check(vals.iter().all(|x| x.key() != i128::MIN), "C04/missing-in-result", || format!("{}: returned view contains a missing value: {:?}", desc(), vals));
        let mut got: Vec<i128> = vals.iter().map(|x| x.key()).collect();
        got.sort();
        lx.check(got == want, "C04/multiset", || format!("{}: returned {:?}, expected the non-missing elements of {:?}", desc(), vals, data));
        let mut a2 = addrs.clone();
        a2.sort();
        a2.dedup();
        lx.check(a2.len() == addrs.len(), "C04/aliasing-duplicates", || format!("{}: returned view visits a cell twice: {:?}", desc(), addrs));
        lx.check(addrs.iter().all(|a| *a >= 0 && offs.contains(&(*a as usize))), "C04/aliasing-outside-input", || format!("{}: returned view uses parent cells {:?}, input view owns {:?}", desc(), addrs, offs));
        let after: Vec<i128> = h.memory().iter().map(|x| x.key()).collect();
        // (cells outside the view and the lane's own multiset afterwards are property C03: counted, not judged here)
        if guards_intact(&before, &after, &offs, |x, y| x == y).is_err() {
            lx.count("cells_outside_the_view_changed (not judged here: property C03)", 1);
        }
        let mut lane_before: Vec<i128> = data.iter().map(|x| x.bits()).collect();
        let mut lane_after: Vec<i128> = h.logical().iter().map(|x| x.bits()).collect();
        lane_before.sort();
        lane_after.sort();
        if lane_before != lane_after {
            lx.count("input_lane_multiset_changed (not judged here: property C03)", 1);
        }
        // idempotent: a second application on the (now compacted) input gives the same view
        if let Ok((v2, a2)) = apply_once(&mut h) {
            let k1: Vec<i128> = vals.iter().map(|x| x.key()).collect();
            let k2: Vec<i128> = v2.iter().map(|x| x.key()).collect();
            lx.check(k1 == k2 && a2 == addrs, "C04/not-idempotent", || format!("{}: first {:?} @{:?}, second {:?} @{:?}", desc(), vals, addrs, v2, a2));
        } else {
            lx.fail("C04/panic", || format!("second remove_nan_mut panicked on {}", desc()));
        }
        // deterministic: a fresh run from the same input gives the same order
        let mut h3 = Host1::new(&data, c.step, n + 2, sentinel.clone());
        if let Ok((v3, a3)) = apply_once(&mut h3) {
            let k1: Vec<i128> = vals.iter().map(|x| x.key()).collect();
            let k3: Vec<i128> = v3.iter().map(|x| x.key()).collect();
            lx.check(k1 == k3 && a3 == addrs, "C04/not-deterministic", || format!("{}: {:?} then {:?}", desc(), vals, v3));
        }
        hash_of(&(got, addrs))
    });
}

fn dispatch(c: &Case, lx: &mut Local) {
    match c.ty {
        0 => run_1d::<f64>(c, lx),
        1 => run_1d::<f32>(c, lx),
        2 => run_1d::<Option<u8>>(c, lx),
        3 => run_1d::<Option<u16>>(c, lx),
        4 => run_1d::<Option<u32>>(c, lx),
        5 => run_1d::<Option<u64>>(c, lx),
        6 => run_1d::<Option<u128>>(c, lx),
        7 => run_1d::<Option<i8>>(c, lx),
        8 => run_1d::<Option<i16>>(c, lx),
        9 => run_1d::<Option<i32>>(c, lx),
        10 => run_1d::<Option<i64>>(c, lx),
        11 => run_1d::<Option<i128>>(c, lx),
        12 => run_1d::<Option<N32>>(c, lx),
        13 => run_1d::<Option<N64>>(c, lx),
        _ => unreachable!(),
    }
}

#[derive(Debug, Clone)]
struct NdCase {
    shape: Vec<usize>,
    axis: usize,
    layout: Layout,
    mask: u32,
    ty: u8,
}

fn run_nd<A: MN>(c: &NdCase, lx: &mut Local)
where
    A::NotNan: Clone + Ord + num_traits::NumOps + num_traits::FromPrimitive,
{
    let n: usize = c.shape.iter().product();
    let data: Vec<A> = (0..n).map(|i| A::mk(c.mask >> i & 1 == 1, (i * 7) % 11)).collect();
    let lanes = lanes_flat(&c.shape, c.axis);
    let desc = || format!("{} shape {:?} axis {} layout {:?} mask {:b}", A::NAME, c.shape, c.axis, c.layout, c.mask);
    lx.single(|lx| {
        // (a) map_axis_skipnan_mut: closure sees exactly the non-missing elements of its lane
        let mut h = Host::new(&c.shape, &data, &c.layout, A::mk(false, 300));
        let before: Vec<i128> = h.memory().iter().map(|x| x.key()).collect();
        let offs = h.view_offsets();
        let r = guarded(|| {
            let mut v = h.view_mut();
            v.map_axis_skipnan_mut(Axis(c.axis), |lane| {
                let mut ks: Vec<i128> = lane.iter().map(|x| A::nn_to_self(x).key()).collect();
                ks.sort();
                ks
            })
        });
        let mut obs = Vec::new();
        match r {
            Err(m) => lx.fail("C04/nd-panic", || format!("map_axis_skipnan_mut panicked on {}: {}", desc(), m)),
            Ok(res) => {
                let flat: Vec<Vec<i128>> = res.iter().cloned().collect();
                lx.check(flat.len() == lanes.len(), "C04/nd-shape", || format!("{}: {} lanes in result, expected {}", desc(), flat.len(), lanes.len()));
                for (li, lane) in lanes.iter().enumerate() {
                    let mut want: Vec<i128> = lane.iter().map(|&i| data[i].key()).filter(|k| *k != i128::MIN).collect();
                    want.sort();
                    if li < flat.len() {
                        lx.check(flat[li] == want, "C04/nd-lane-content", || format!("{}: lane {} handed to the closure as {:?}, expected {:?}", desc(), li, flat[li], want));
                        lx.check(!flat[li].contains(&i128::MIN), "C04/nd-missing-handed-out", || format!("{}: lane {} contained a missing value typed as not-NaN", desc(), li));
                    }
                }
                obs.push(flat);
            }
        }
        let after: Vec<i128> = h.memory().iter().map(|x| x.key()).collect();
        if guards_intact(&before, &after, &offs, |x, y| x == y).is_err() {
            lx.count("cells_outside_the_view_changed (not judged here: property C03)", 1);
        }
        hash_of(&obs)
    });
    // (b) quantile_axis_skipnan_mut: strategy, q and pivot policy rotate with the case, so that every
    //     combination meets every mask and layout many times (integral and fractional positions,
    //     both neighbours needed or only one)
    let salt = (c.mask as usize).wrapping_mul(31).wrapping_add(c.axis * 7).wrapping_add(c.layout.pad as usize).wrapping_add(c.layout.steps.iter().fold(0usize, |a, s| a.wrapping_mul(5).wrapping_add((*s + 2) as usize)));
    // Midpoint does arithmetic on the two neighbours: between infinite values that is NaN by IEEE
    // rules (inf - inf), which is not what this property is about: Nearest is used for such data
    let strat = if salt % 4 == 2 && data.iter().any(|x| x.is_inf()) { 3 } else { salt % 4 };
    let q = [0.5, 0.0, 1.0, 0.25, 0.75][(salt / 4) % 5];
    let policy = [Policy::Middle, Policy::First, Policy::Last][(salt / 20) % 3];
    lx.explore(&PivotMode::Bounded { policy, bound: 0 }, |lx| {
        let mut h = Host::new(&c.shape, &data, &c.layout, A::mk(false, 300));
        let r = guarded(|| {
            let mut v = h.view_mut();
            match strat {
                0 => v.quantile_axis_skipnan_mut(Axis(c.axis), n64(q), &Lower),
                1 => v.quantile_axis_skipnan_mut(Axis(c.axis), n64(q), &Higher),
                2 => v.quantile_axis_skipnan_mut(Axis(c.axis), n64(q), &Midpoint),
                _ => v.quantile_axis_skipnan_mut(Axis(c.axis), n64(q), &Nearest),
            }
        });
        let sname = ["Lower", "Higher", "Midpoint", "Nearest"][strat];
        let mut obs = Vec::new();
        match r {
            Err(m) => lx.fail("C04/nd-panic", || format!("quantile_axis_skipnan_mut(q={}, {}) panicked on {}: {}", q, sname, desc(), m)),
            Ok(Err(e)) => {
                lx.check(c.shape[c.axis] == 0, "C04/nd-quantile-error", || format!("{}: {:?}", desc(), e));
            }
            Ok(Ok(res)) => {
                let flat: Vec<i128> = res.iter().map(|x| x.key()).collect();
                for (li, lane) in lanes.iter().enumerate() {
                    let mut ks: Vec<(i128, A)> = lane.iter().map(|&i| (data[i].key(), data[i].clone())).filter(|k| k.0 != i128::MIN).collect();
                    // order by value (the harness's own order)
                    ks.sort_by(|a, b| a.1.rank().partial_cmp(&b.1.rank()).unwrap());
                    if li >= flat.len() {
                        continue;
                    }
                    if ks.is_empty() {
                        lx.check(flat[li] == i128::MIN, "C04/nd-quantile-value", || format!("{}: lane {} has no value but the result is key {}", desc(), li, flat[li]));
                        continue;
                    }
                    // q is dyadic, so (m - 1) q is exact
                    let pos = (ks.len() - 1) as f64 * q;
                    let (lo, hi) = (ks[pos.floor() as usize].0, ks[pos.ceil() as usize].0);
                    let ok = match strat {
                        0 => flat[li] == lo,
                        1 => flat[li] == hi,
                        3 => flat[li] == if pos - pos.floor() < 0.5 { lo } else { hi },
                        _ => {
                            // (keys are injective, not monotone: between distinct neighbours only
                            // "a value came back" is required here; the value itself is C01 / C14)
                            if lo == hi {
                                flat[li] == lo
                            } else {
                                flat[li] != i128::MIN
                            }
                        }
                    };
                    lx.check(ok, "C04/nd-quantile-value", || format!("{}: lane {} quantile(q={}, {}) has key {}, neighbours {} / {}", desc(), li, q, sname, flat[li], lo, hi));
                }
                obs = flat;
            }
        }
        hash_of(&obs)
    });
}

/// Values of the not-NaN type produced by its numeric conversions must really be non-missing.
fn conv_check<A: MN>(lx: &mut Local) -> u64
where
    A::NotNan: num_traits::FromPrimitive + num_traits::ToPrimitive + Clone,
{
    use num_traits::{FromPrimitive, ToPrimitive};
    let mut made = 0u64;
    let mut see = |what: String, src_f64: Option<f64>, v: Option<A::NotNan>, lx: &mut Local| {
        if let Some(x) = v {
            made += 1;
            let back = A::nn_to_self(&x);
            if !lx.check(back.key() != i128::MIN, "C04/conversion-yields-missing", || format!("{}: {} produced a not-NaN typed value that is missing", A::NAME, what)) {
                // using such a value through Deref would be undefined behaviour in the harness itself
                return;
            }
            // ToPrimitive on a valid value must not panic
            let r = guarded(|| (x.to_f64(), x.to_i64(), x.to_u64()));
            lx.check(r.is_ok(), "C04/conversion-panic", || format!("{}: to_f64/to_i64/to_u64 panicked on the value from {}", A::NAME, what));
            // round trip: a value built from an (integral or, for float-like types, any finite) number reads back as that number
            if let (Some(src), Ok((Some(y), _, _))) = (src_f64, &r) {
                let exact = src.fract() == 0.0 && src.abs() < 9.0e15;
                let floatlike = A::NAME.contains("N32") || A::NAME.contains("N64") || A::NAME == "f64" || A::NAME == "f32";
                let in_range = !(A::NAME.contains("32") && floatlike) || src.abs() < 3.0e38;
                if (exact || floatlike) && in_range {
                    let tol = if A::NAME.contains("32") { 1e-6 * src.abs() } else { 0.0 };
                    lx.within((y - src).abs(), tol, "C04/conversion-round-trip", || format!("{}: {} reads back through to_f64 as {:e}", A::NAME, what, y));
                }
            }
        }
    };
    for &f in &[0.0f64, 1.0, -1.0, 0.5, 127.0, 128.0, 255.0, 256.0, 300.0, -129.0, 65536.0, 2147483648.0, 4294967296.0, 1e19, -1e19, 1e39, -1e39, f64::MAX, f64::INFINITY, f64::NEG_INFINITY, f64::NAN] {
        let r = guarded(|| <A::NotNan as FromPrimitive>::from_f64(f));
        match r {
            Ok(v) => see(format!("from_f64({:e})", f), if f.is_finite() { Some(f) } else { None }, v, lx),
            Err(m) => lx.fail("C04/conversion-panic", || format!("{}: from_f64({:e}) panicked: {}", A::NAME, f, m)),
        }
        let r = guarded(|| <A::NotNan as FromPrimitive>::from_f32(f as f32));
        if let Ok(v) = r {
            see(format!("from_f32({:e})", f), if f.is_finite() && (f as f32).is_finite() { Some(f as f32 as f64) } else { None }, v, lx);
        }
    }
    for &i in &[0i64, 1, -1, 127, 128, -128, -129, 255, 256, 32767, 32768, 65535, 65536, i32::MAX as i64, i32::MAX as i64 + 1, i64::MAX, i64::MIN] {
        if let Ok(v) = guarded(|| <A::NotNan as FromPrimitive>::from_i64(i)) {
            see(format!("from_i64({})", i), if i.unsigned_abs() < (1u64 << 53) { Some(i as f64) } else { None }, v, lx);
        }
        if let Ok(v) = guarded(|| <A::NotNan as FromPrimitive>::from_i128(i as i128 * 4)) {
            see(format!("from_i128({})", i as i128 * 4), None, v, lx);
        }
        if i >= 0 {
            if let Ok(v) = guarded(|| <A::NotNan as FromPrimitive>::from_u64(i as u64 * 2 + 1)) {
                see(format!("from_u64({})", i as u64 * 2 + 1), None, v, lx);
            }
            if let Ok(v) = guarded(|| <A::NotNan as FromPrimitive>::from_usize(i as usize)) {
                see(format!("from_usize({})", i), None, v, lx);
            }
        }
    }
    made
}


fn main() {
    let mut rep = Report::new("C04");
    rep.rule = "case = (element type, length, missing-value mask, stride) for 1-D views inside a sentinel parent; (type, shape, axis, layout, mask) for lanes of n-D arrays; non-trivial = at least one missing and one non-missing element".into();
    rep.assume("remove_nan_mut looks at elements only through is_nan(), so its behaviour depends only on the missing/non-missing mask: all masks up to the length bound are enumerated for all 14 MaybeNan types");
    rep.assume("the parent is padded by len+2 cells on both sides so that a view rebuilt with a wrong stride still lies inside the allocation (the defect is observed by value/address oracles without the harness executing out-of-allocation reads)");
    let lmax = rep.cfg.pick(8, 10);
    let steps: Vec<isize> = vec![1, 2, 3, -1, -2, -3];
    let steps2 = steps.clone();
    let cases = (0..=lmax).flat_map(move |len| {
        let steps = steps2.clone();
        (0u32..(1 << len)).flat_map(move |mask| {
            let steps = steps.clone();
            (0..14u8).flat_map(move |ty| steps.clone().into_iter().map(move |step| Case { len, mask, step, ty }))
        })
    });
    rep.run_sub(
        "remove-nan-1d",
        &format!("every missing/non-missing mask of length 0..={} x strides {:?} x 14 element types (f32, f64, Option of u8..u128, i8..i128, N32, N64), view at offset len+2 inside a sentinel parent", lmax, steps),
        cases,
        |c, lx| {
            let miss = c.mask.count_ones() as usize;
            lx.nontrivial(miss >= 1 && miss < c.len);
            if c.step != 1 {
                lx.count("non_unit_stride_cases", 1);
            }
            dispatch(c, lx);
        },
    );

    rep.run_sub(
        "not-nan-conversions",
        "for each of the 14 element types: every numeric constructor of the not-NaN type (from_f64/f32/i64/i128/u64/usize) at in-range, boundary and out-of-range arguments incl. NaN and infinities: a produced value must be non-missing and usable",
        (0..14u8).map(|ty| ty),
        |ty, lx| {
            lx.nontrivial(true);
            lx.single(|lx| match *ty {
                0 => conv_check::<f64>(lx),
                1 => conv_check::<f32>(lx),
                2 => conv_check::<Option<u8>>(lx),
                3 => conv_check::<Option<u16>>(lx),
                4 => conv_check::<Option<u32>>(lx),
                5 => conv_check::<Option<u64>>(lx),
                6 => conv_check::<Option<u128>>(lx),
                7 => conv_check::<Option<i8>>(lx),
                8 => conv_check::<Option<i16>>(lx),
                9 => conv_check::<Option<i32>>(lx),
                10 => conv_check::<Option<i64>>(lx),
                11 => conv_check::<Option<i128>>(lx),
                12 => conv_check::<Option<N32>>(lx),
                _ => conv_check::<Option<N64>>(lx),
            });
        },
    );
    let thorough = rep.cfg.thorough();
    let mut nd: Vec<NdCase> = Vec::new();
    let shapes: Vec<Vec<usize>> = if thorough { vec![vec![3, 4], vec![4, 3], vec![1, 3], vec![3, 1], vec![1, 1], vec![2, 1, 2], vec![2, 3, 2]] } else { vec![vec![3, 4], vec![1, 3], vec![3, 1], vec![1, 1], vec![2, 1, 2], vec![2, 3, 2]] };
    let mut shapes = shapes;
    shapes.push(vec![2, 2, 1, 2]);
    shapes.push(vec![2, 1, 2, 1, 2]);
    for shape in &shapes {
        let d = shape.len();
        let n: usize = shape.iter().product();
        let layouts = if d <= 3 { all_layouts(d, &[1, 2, -1, -2]) } else { nsmc::layouts::covering_layouts(d, &[1, 2, -1, -2]) };
        for axis in 0..d {
            for l in &layouts {
                for mask in 0u32..(1 << n) {
                    // 3-D quick tier: masks thinned to those whose low and high halves mirror or differ by one bit-rotation (keeps every per-lane mask)
                    if d == 3 && n > 8 && !thorough && (mask % 5 != 0) {
                        continue;
                    }
                    for ty in [0u8, 9] {
                        nd.push(NdCase { shape: shape.clone(), axis, layout: l.clone(), mask, ty });
                    }
                }
            }
        }
    }
    rep.run_sub(
        "lanes-nd",
        &format!("shapes {:?} x every axis x all layouts (axis permutation x steps {{1,2,-1,-2}} x offset; 4-D, 5-D: covering subset, all 256 masks) x missing-value masks (2-D: all 4096; 3-D: {}) x f64 and Option<i32>, through map_axis_skipnan_mut and quantile_axis_skipnan_mut", shapes, if thorough { "all 4096" } else { "every 5th mask" }),
        nd.into_iter(),
        |c, lx| {
            lx.nontrivial(c.mask != 0);
            match c.ty {
                0 => run_nd::<f64>(c, lx),
                _ => run_nd::<Option<i32>>(c, lx),
            }
        },
    );
    rep.finish();
}
