//! C20 — results do not depend on memory layout, strides or ownership.
use ndarray::prelude::*;
use ndarray::{CowArray, Data, DataMut, Dimension, IntoDimension, RemoveAxis};
use ndarray_stats::histogram::strategies::{Auto, BinsBuildingStrategy, FreedmanDiaconis, Rice, Sqrt, Sturges};
use ndarray_stats::histogram::{Bins, Edges, Grid, GridBuilder};
use ndarray_stats::interpolate::{Linear, Nearest};
use ndarray_stats::{CorrelationExt, DeviationExt, EntropyExt, HistogramExt, MaybeNan, MaybeNanExt, Quantile1dExt, QuantileExt, Sort1dExt, SummaryStatisticsExt};
use noisy_float::types::n64;
use nsmc::layouts::{all_layouts, covering_layouts, Host, Layout};
use nsmc::*;

#[derive(Debug, Clone, PartialEq)]
enum Val {
    F(Vec<f64>),
    I(Vec<i64>),
    S(String),
}

type Sig = Vec<(String, Val)>;

fn f1(x: f64) -> Val {
    Val::F(vec![x])
}
fn res_f<E: std::fmt::Debug>(r: Result<f64, E>) -> Val {
    match r {
        Ok(x) => f1(x),
        Err(e) => Val::S(format!("Err({:?})", e)),
    }
}
fn res_arr<D: Dimension, E: std::fmt::Debug>(r: Result<Array<f64, D>, E>) -> Val {
    match r {
        Ok(a) => Val::F(std::iter::once(a.ndim() as f64).chain(a.shape().iter().map(|&s| s as f64)).chain(a.iter().cloned()).collect()),
        Err(e) => Val::S(format!("Err({:?})", e)),
    }
}
fn res_arr_i<D: Dimension, E: std::fmt::Debug>(r: Result<Array<i64, D>, E>) -> Val {
    match r {
        Ok(a) => Val::I(std::iter::once(a.ndim() as i64).chain(a.shape().iter().map(|&s| s as i64)).chain(a.iter().cloned()).collect()),
        Err(e) => Val::S(format!("Err({:?})", e)),
    }
}

/// f64 with NaN and Option<i32> with None: skip-NaN read-only routines
fn ro_nan<A, S, D>(a: &ArrayBase<S, D>, key: &dyn Fn(&A) -> f64, tag: &str, out: &mut Sig)
where
    A: MaybeNan + Clone,
    A::NotNan: Ord + Clone,
    S: Data<Elem = A>,
    D: Dimension + RemoveAxis,
{
    let mut p = |k: &str, v: Val| out.push((format!("{}:{}", tag, k), v));
    let knn = |x: &A::NotNan| key(&A::from_not_nan(x.clone()));
    p("min_skipnan", f1(key(a.min_skipnan())));
    p("max_skipnan", f1(key(a.max_skipnan())));
    p("a[argmin_skipnan]", match a.argmin_skipnan() {
        Ok(i) => f1(key(&a[i.into_dimension()])),
        Err(e) => Val::S(format!("{:?}", e)),
    });
    p("a[argmax_skipnan]", match a.argmax_skipnan() {
        Ok(i) => f1(key(&a[i.into_dimension()])),
        Err(e) => Val::S(format!("{:?}", e)),
    });
    // folds see each remaining element once; the indexed fold pairs values with logical indexes
    let mut v: Vec<f64> = a.fold_skipnan(Vec::new(), |mut acc, x| {
        acc.push(knn(x));
        acc
    });
    v.sort_by(|x, y| x.partial_cmp(y).unwrap());
    p("fold_skipnan(sorted)", Val::F(v));
    let mut v: Vec<f64> = Vec::new();
    a.visit_skipnan(|x| v.push(knn(x)));
    v.sort_by(|x, y| x.partial_cmp(y).unwrap());
    p("visit_skipnan(sorted)", Val::F(v));
    let shape = a.shape().to_vec();
    let mut iv: Vec<(usize, f64)> = a.indexed_fold_skipnan(Vec::new(), |mut acc, (idx, x)| {
        let ix = idx.into_dimension();
        let mut flat = 0usize;
        for (i, s) in ix.slice().iter().zip(&shape) {
            flat = flat * s + i;
        }
        acc.push((flat, knn(x)));
        acc
    });
    iv.sort_by(|x, y| x.partial_cmp(y).unwrap());
    p("indexed_fold_skipnan(sorted by index)", Val::F(iv.into_iter().flat_map(|(i, x)| vec![i as f64, x]).collect()));
    for ax in 0..a.ndim() {
        let r = a.fold_axis_skipnan(Axis(ax), (0.0f64, 0.0f64), |acc, x| (acc.0 + 1.0, acc.1.max(knn(x))));
        p(&format!("fold_axis_skipnan_{}", ax), Val::F(r.iter().flat_map(|t| vec![t.0, t.1]).collect()));
        // an order-sensitive fold: the elements of a lane are combined in logical order along the axis
        let r = a.fold_axis_skipnan(Axis(ax), 1.0f64, |acc, x| acc * 3.0 + knn(x));
        p(&format!("fold_axis_skipnan_ordered_{}", ax), Val::F(r.iter().cloned().collect()));
    }
}

/// mutating routines on i32 data; `make` yields a fresh array in the representation under test
fn mut_i32<S: DataMut<Elem = i32>, D: Dimension + RemoveAxis>(make: &dyn Fn() -> ArrayBase<S, D>, out: &mut Sig) {
    let nd = make().ndim();
    for ax in 0..nd {
        for (qi, q) in [0.0, 0.35, 0.5, 1.0].iter().enumerate() {
            let mut a = make();
            let r = a.quantile_axis_mut(Axis(ax), n64(*q), &Linear);
            out.push((format!("quantile_axis_mut_{}_q{}_linear", ax, qi), Val::S(format!("{:?}", r.map(|x| x.into_dyn())))));
            let mut a = make();
            let r = a.quantile_axis_mut(Axis(ax), n64(*q), &Nearest);
            out.push((format!("quantile_axis_mut_{}_q{}_nearest", ax, qi), Val::S(format!("{:?}", r.map(|x| x.into_dyn())))));
        }
        let mut a = make();
        let r = a.quantiles_axis_mut(Axis(ax), &Array1::from(vec![n64(0.9), n64(0.1), n64(0.5), n64(0.1)]), &Linear);
        out.push((format!("quantiles_axis_mut_{}", ax), Val::S(format!("{:?}", r.map(|x| x.into_dyn())))));
    }
}

fn mut_i32_1d<S: DataMut<Elem = i32>>(make: &dyn Fn() -> ArrayBase<S, Ix1>, out: &mut Sig) {
    let n = make().len();
    strategies_1d(&make(), out);
    let mut a = make();
    out.push(("quantile_mut".into(), Val::S(format!("{:?}", a.quantile_mut(n64(0.4), &Linear)))));
    let mut a = make();
    out.push(("quantiles_mut".into(), Val::S(format!("{:?}", a.quantiles_mut(&Array1::from(vec![n64(1.0), n64(0.2), n64(0.2)]), &Nearest)))));
    for i in 0..n {
        let mut a = make();
        out.push((format!("get_from_sorted_mut_{}", i), Val::I(vec![a.get_from_sorted_mut(i) as i64])));
        let mut a = make();
        let pv = a[i];
        let k = a.partition_mut(i);
        out.push((format!("partition_mut_{}", i), Val::I(vec![k as i64, (a[k] == pv) as i64])));
    }
    let mut a = make();
    let m = a.get_many_from_sorted_mut(&Array1::from(vec![n - 1, 0, n / 2, 0]));
    out.push(("get_many_from_sorted_mut".into(), Val::S(format!("{:?}", m.into_iter().collect::<Vec<_>>()))));
}

fn mut_nan<A, S, D>(make: &dyn Fn() -> ArrayBase<S, D>, key: &dyn Fn(&A) -> f64, tag: &str, out: &mut Sig)
where
    A: MaybeNan + Clone,
    A::NotNan: Ord + Clone + num_traits::NumOps + num_traits::FromPrimitive + num_traits::ToPrimitive,
    S: DataMut<Elem = A>,
    D: Dimension + RemoveAxis,
{
    let nd = make().ndim();
    for ax in 0..nd {
        for (qi, q) in [0.0, 0.5, 0.8].iter().enumerate() {
            let mut a = make();
            let r = a.quantile_axis_skipnan_mut(Axis(ax), n64(*q), &Linear);
            out.push((format!("{}:quantile_axis_skipnan_mut_{}_q{}", tag, ax, qi), match r {
                Ok(x) => Val::F(x.iter().map(|v| key(v)).collect()),
                Err(e) => Val::S(format!("{:?}", e)),
            }));
        }
        let mut a = make();
        let r = a.map_axis_skipnan_mut(Axis(ax), |lane| {
            let mut v: Vec<f64> = lane.iter().map(|x| key(&A::from_not_nan(x.clone()))).collect();
            v.sort_by(|x, y| x.partial_cmp(y).unwrap());
            v.iter().enumerate().map(|(i, x)| (i as f64 + 1.0) * x).sum::<f64>() + 1000.0 * v.len() as f64
        });
        out.push((format!("{}:map_axis_skipnan_mut_{}", tag, ax), Val::F(r.iter().cloned().collect())));
        // the same with a mapping that depends on the order in which the lane presents its elements
        let mut a = make();
        let r = a.map_axis_skipnan_mut(Axis(ax), |lane| lane.iter().enumerate().map(|(i, x)| (i as f64 + 1.0) * key(&A::from_not_nan(x.clone()))).sum::<f64>());
        out.push((format!("{}:map_axis_skipnan_mut_in_lane_order_{}", tag, ax), Val::F(r.iter().cloned().collect())));
    }
}

fn two_d_f64<S: Data<Elem = f64>>(a: &ArrayBase<S, Ix2>, out: &mut Sig) {
    out.push(("cov_1".into(), res_arr(a.cov(1.0))));
    out.push(("pearson_correlation".into(), res_arr(a.pearson_correlation())));
}

fn two_d_i64<S: Data<Elem = i64>>(a: &ArrayBase<S, Ix2>, out: &mut Sig) {
    // histogram over a fixed grid and over a GridBuilder<Sqrt> grid; rows are observations
    let d = a.ncols();
    let grid = Grid::from((0..d).map(|j| Bins::new(Edges::from(vec![-10i64, -2, 0, 3 + j as i64, 50]))).collect::<Vec<_>>());
    let h = a.histogram(grid);
    out.push(("histogram_fixed_grid".into(), Val::I(h.counts().iter().map(|&c| c as i64).collect())));
    match GridBuilder::<Sqrt<i64>>::from_array(a) {
        Ok(gb) => {
            let g = gb.build();
            out.push(("grid_builder_shape".into(), Val::I(g.shape().iter().map(|&s| s as i64).collect())));
            let h = a.histogram(g);
            out.push(("histogram_built_grid".into(), Val::I(h.counts().iter().map(|&c| c as i64).collect())));
        }
        Err(e) => out.push(("grid_builder".into(), Val::S(format!("{:?}", e)))),
    }
    // the strategies that look at order statistics of each column
    match GridBuilder::<FreedmanDiaconis<i64>>::from_array(a) {
        Ok(gb) => {
            let g = gb.build();
            out.push(("grid_builder_fd".into(), Val::S(format!("{:?}", g.projections().iter().map(|b| (0..b.len()).map(|i| b.index(i)).collect::<Vec<_>>()).collect::<Vec<_>>()))));
        }
        Err(e) => out.push(("grid_builder_fd".into(), Val::S(format!("{:?}", e)))),
    }
    match GridBuilder::<Auto<i64>>::from_array(a) {
        Ok(gb) => {
            let g = gb.build();
            out.push(("grid_builder_auto".into(), Val::S(format!("{:?}", g.projections().iter().map(|b| (0..b.len()).map(|i| b.index(i)).collect::<Vec<_>>()).collect::<Vec<_>>()))));
        }
        Err(e) => out.push(("grid_builder_auto".into(), Val::S(format!("{:?}", e)))),
    }
}

/// every bin-building strategy on a 1-D array: number of bins and the bins built, or the error
fn strategies_1d<S: Data<Elem = i32>>(a: &ArrayBase<S, Ix1>, out: &mut Sig) {
    macro_rules! st {
        ($name:expr, $s:ident) => {
            out.push((
                format!("strategy_{}", $name),
                Val::S(match $s::<i32>::from_array(a) {
                    Ok(s) => {
                        let b = s.build();
                        format!("Ok(n_bins {}, bins {:?})", s.n_bins(), (0..b.len()).map(|i| b.index(i)).collect::<Vec<_>>())
                    }
                    Err(e) => format!("Err({:?})", e),
                }),
            ));
        };
    }
    st!("sqrt", Sqrt);
    st!("rice", Rice);
    st!("sturges", Sturges);
    st!("fd", FreedmanDiaconis);
    st!("auto", Auto);
}

#[derive(Debug, Clone)]
struct Case {
    shape: Vec<usize>,
    layout: Layout,
    fill: usize,
    /// 0 view (read-only part), 1 view_mut, 2 owned with this layout, 3 ArcArray, 4 Cow borrowed, 5 Cow owned
    kind: u8,
    stat: bool,
}

struct Canon {
    f: Vec<f64>,
    f2: Vec<f64>,
    fw: Vec<f64>,
    i: Vec<i64>,
    i2: Vec<i64>,
    i32s: Vec<i32>,
    nan: Vec<f64>,
    opt: Vec<Option<i32>>,
}

fn canon(shape: &[usize], fill: usize) -> Canon {
    let n: usize = shape.iter().product();
    let base = |i: usize| -> i64 {
        match fill {
            0 => (i as i64 * 7 + 3) % 11 - 4,         // distinct-ish, signed
            1 => (i as i64 * 5) % 3,                   // heavy ties
            _ => ((i * i + 2 * i) as i64) % 7 - 3,     // mixed
        }
    };
    let f: Vec<f64> = (0..n).map(|i| base(i) as f64 * 0.5 + 0.1 * (i % 3) as f64).collect();
    let f2: Vec<f64> = (0..n).map(|i| base(n - 1 - i) as f64 * 0.25 + if i % 2 == 0 { 0.0 } else { f[i] }).collect();
    let fw: Vec<f64> = (0..n).map(|i| [0.25, 1.0, 3.0, 0.5][(i + fill) % 4]).collect();
    let i: Vec<i64> = (0..n).map(base).collect();
    let i2: Vec<i64> = (0..n).map(|k| if k % 3 == 0 { base(k) } else { base(n - 1 - k) + 1 }).collect();
    let i32s: Vec<i32> = i.iter().map(|&x| x as i32).collect();
    let nan: Vec<f64> = (0..n).map(|k| if (k + fill) % 4 == 1 || (fill == 1 && k == 0) { f64::NAN } else { f[k] }).collect();
    let opt: Vec<Option<i32>> = (0..n).map(|k| if (k + fill) % 4 == 2 || (fill == 2 && k == n - 1) { None } else { Some(base(k) as i32) }).collect();
    Canon { f, f2, fw, i, i2, i32s, nan, opt }
}

fn weights1<T: Clone>(shape: &[usize], src: &[T]) -> Vec<Vec<T>> {
    shape.iter().map(|&l| (0..l).map(|k| src[k % src.len()].clone()).collect()).collect()
}

/// Builds `data` (logical C order) in the requested ownership kind and layout, as IxDyn.
macro_rules! with_repr {
    ($kind:expr, $shape:expr, $data:expr, $layout:expr, $sent:expr, |$a:ident| $body:expr) => {{
        match $kind {
            0 | 4 => {
                let h = Host::new($shape, $data, $layout, $sent);
                if $kind == 0 {
                    let $a = h.view();
                    $body
                } else {
                    let $a = CowArray::from(h.view());
                    $body
                }
            }
            1 => {
                let mut h = Host::new($shape, $data, $layout, $sent);
                let $a = h.view_mut();
                $body
            }
            2 => {
                let $a = Host::new($shape, $data, $layout, $sent).into_owned_layout();
                $body
            }
            3 => {
                let $a = Host::new($shape, $data, $layout, $sent).into_owned_layout().into_shared();
                $body
            }
            _ => {
                let $a = CowArray::from(Host::new($shape, $data, $layout, $sent).into_owned_layout());
                $body
            }
        }
    }};
}

/// Two operands built in the same ownership kind (needed by routines whose second argument is `&Self`).
macro_rules! with_repr2 {
    ($kind:expr, ($s1:expr, $d1:expr, $l1:expr, $z1:expr), ($s2:expr, $d2:expr, $l2:expr, $z2:expr), |$a:ident, $b:ident| $body:expr) => {{
        match $kind {
            0 => {
                let (h1, h2) = (Host::new($s1, $d1, $l1, $z1), Host::new($s2, $d2, $l2, $z2));
                let ($a, $b) = (h1.view(), h2.view());
                $body
            }
            4 => {
                let (h1, h2) = (Host::new($s1, $d1, $l1, $z1), Host::new($s2, $d2, $l2, $z2));
                let ($a, $b) = (CowArray::from(h1.view()), CowArray::from(h2.view()));
                $body
            }
            1 => {
                let (mut h1, mut h2) = (Host::new($s1, $d1, $l1, $z1), Host::new($s2, $d2, $l2, $z2));
                let ($a, $b) = (h1.view_mut(), h2.view_mut());
                $body
            }
            2 => {
                let ($a, $b) = (Host::new($s1, $d1, $l1, $z1).into_owned_layout(), Host::new($s2, $d2, $l2, $z2).into_owned_layout());
                $body
            }
            3 => {
                let ($a, $b) = (Host::new($s1, $d1, $l1, $z1).into_owned_layout().into_shared(), Host::new($s2, $d2, $l2, $z2).into_owned_layout().into_shared());
                $body
            }
            _ => {
                let ($a, $b) = (CowArray::from(Host::new($s1, $d1, $l1, $z1).into_owned_layout()), CowArray::from(Host::new($s2, $d2, $l2, $z2).into_owned_layout()));
                $body
            }
        }
    }};
}

fn sig_for(c: &Case, canonical: bool) -> Sig {
    let cn = canon(&c.shape, c.fill);
    let d = c.shape.len();
    let mut out: Sig = Vec::new();
    let l = if canonical { Layout::c_order(d) } else { c.layout.clone() };
    // a different layout for second operands (reverse permutation, negated steps)
    // when the first operand is contiguous in memory (pad 0) the second is contiguous too, but in a
    // different memory order (reversed permutation, one axis flipped): exposes pairing by memory order
    let l2 = if canonical {
        Layout::c_order(d)
    } else if l.pad == 0 {
        let mut steps = l.steps.clone();
        let k = c.fill % d;
        steps[k] = -steps[k];
        Layout { perm: l.perm.iter().rev().cloned().collect(), steps, pad: 0 }
    } else {
        Layout { perm: l.perm.iter().rev().cloned().collect(), steps: l.steps.iter().map(|s| -s).collect(), pad: 1 }
    };
    let l1 = |k: usize| -> Layout {
        if canonical {
            Layout::c_order(1)
        } else {
            Layout { perm: vec![0], steps: vec![[1isize, -1, 2, -2][k % 4]], pad: 1 }
        }
    };
    let kind = if canonical { 2 } else { c.kind };
    let stat = !canonical && c.stat;
    let w1f = weights1(&c.shape, &[0.25, 1.0, 3.0, 0.5, 2.0]);
    let w1i = weights1(&c.shape, &[1i64, 2, 0, 3, 1]);
    macro_rules! dims {
        ($a:ident, $f:expr) => {
            if stat {
                match d {
                    1 => {
                        let $a = $a.into_dimensionality::<Ix1>().unwrap();
                        $f
                    }
                    2 => {
                        let $a = $a.into_dimensionality::<Ix2>().unwrap();
                        $f
                    }
                    3 => {
                        let $a = $a.into_dimensionality::<Ix3>().unwrap();
                        $f
                    }
                    _ => {
                        let $a = $a.into_dimensionality::<Ix4>().unwrap();
                        $f
                    }
                }
            } else {
                $f
            }
        };
    }
    macro_rules! dims2 {
        ($a:ident, $b:ident, $f:expr) => {
            if stat {
                match d {
                    1 => {
                        let $a = $a.into_dimensionality::<Ix1>().unwrap();
                        let $b = $b.into_dimensionality::<Ix1>().unwrap();
                        $f
                    }
                    2 => {
                        let $a = $a.into_dimensionality::<Ix2>().unwrap();
                        let $b = $b.into_dimensionality::<Ix2>().unwrap();
                        $f
                    }
                    3 => {
                        let $a = $a.into_dimensionality::<Ix3>().unwrap();
                        let $b = $b.into_dimensionality::<Ix3>().unwrap();
                        $f
                    }
                    _ => {
                        let $a = $a.into_dimensionality::<Ix4>().unwrap();
                        let $b = $b.into_dimensionality::<Ix4>().unwrap();
                        $f
                    }
                }
            } else {
                $f
            }
        };
    }
    // --- f64 read-only, second operand of any storage type (owned C order here: a third representation)
    with_repr!(kind, &c.shape, &cn.f, &l, 777.0, |a| {
        let b = Host::new(&c.shape, &cn.f2, &l2, 555.0);
        let bv = b.view();
        // storage types differ between a and bv for most kinds: use the routines generic in the second storage type
        let mut p = |k: &str, v: Val| out.push((k.to_string(), v));
        p("mean", res_f(SummaryStatisticsExt::mean(&a)));
        p("harmonic_mean", res_f(a.mapv(|x| x.abs() + 0.5).harmonic_mean()));
        p("geometric_mean", res_f(a.mapv(|x| x.abs() + 0.5).geometric_mean()));
        p("kurtosis", res_f(a.kurtosis()));
        p("skewness", res_f(a.skewness()));
        p("central_moment_3", res_f(a.central_moment(3)));
        p("central_moments_5", match a.central_moments(5) {
            Ok(v) => Val::F(v),
            Err(e) => Val::S(format!("{:?}", e)),
        });
        p("entropy", res_f(a.mapv(|x| x.abs() / 8.0).entropy()));
        p("count_eq", Val::S(format!("{:?}", a.count_eq(&bv))));
        p("count_neq", Val::S(format!("{:?}", a.count_neq(&bv))));
        p("sq_l2_dist", res_f(a.sq_l2_dist(&bv)));
        p("l2_dist", res_f(a.l2_dist(&bv)));
        p("l1_dist", res_f(a.l1_dist(&bv)));
        p("linf_dist", res_f(a.linf_dist(&bv)));
        p("mean_abs_err", res_f(a.mean_abs_err(&bv)));
        p("mean_sq_err", res_f(a.mean_sq_err(&bv)));
        p("root_mean_sq_err", res_f(a.root_mean_sq_err(&bv)));
        p("peak_signal_to_noise_ratio", res_f(a.peak_signal_to_noise_ratio(&bv, 5.0)));
        p("min", res_f(QuantileExt::min(&a).map(|x| *x)));
        p("max", res_f(QuantileExt::max(&a).map(|x| *x)));
        p("a[argmin]", res_f(QuantileExt::argmin(&a).map(|i| a[i])));
        p("a[argmax]", res_f(QuantileExt::argmax(&a).map(|i| a[i])));
    });
    // extreme mixed-sign values: in logical order the partial sums stay finite (+M, -M alternate along the last
    // axis); any other summation order overflows. weighted_sum / weighted_mean add in logical order.
    if d >= 2 {
        let last = c.shape[d - 1];
        let n: usize = c.shape.iter().product();
        // +M at the first element of every innermost lane; the other signs are chosen greedily so that the running sum in
        // logical order stays within [-M, M] (and every lane ends at <= 0, so the next lane's +M cannot overflow)
        let mut big: Vec<f64> = Vec::with_capacity(n);
        let mut t = 0i32;
        for i in 0..n {
            let sgn = if i % last == 0 { 1 } else if t > 0 { -1 } else if t < 0 { 1 } else { -1 };
            t += sgn;
            big.push(sgn as f64 * 1.0e308);
        }
        let ones: Vec<f64> = vec![1.0; n];
        with_repr2!(kind, (&c.shape, &big, &l, 0.0), (&c.shape, &ones, &l, 0.0), |a, w| {
            {
                dims2!(a, w, {
                    out.push(("weighted_sum_extreme".into(), res_f(a.weighted_sum(&w))));
                })
            }
        });
    }
    // entropy family needs non-negative data: separate operands
    {
        let pa: Vec<f64> = cn.f.iter().map(|x| x.abs() / 8.0).collect();
        let qa: Vec<f64> = cn.f2.iter().map(|x| x.abs() / 4.0 + 0.125).collect();
        with_repr!(kind, &c.shape, &pa, &l, 0.3, |a| {
            let b = Host::new(&c.shape, &qa, &l2, 0.7);
            let bv = b.view();
            out.push(("cross_entropy".into(), res_f(a.cross_entropy(&bv))));
            out.push(("kl_divergence".into(), res_f(a.kl_divergence(&bv))));
        });
    }
    // --- same-storage-type routines (weights: &Self): both operands in the same kind
    with_repr2!(kind, (&c.shape, &cn.f, &l, 777.0), (&c.shape, &cn.fw, &l2, 555.0), |a, wf| {
        {
            dims2!(a, wf, {
                out.push(("weighted_sum".into(), res_f(a.weighted_sum(&wf))));
                out.push(("weighted_mean".into(), res_f(a.weighted_mean(&wf))));
                out.push(("weighted_var_0".into(), res_f(a.weighted_var(&wf, 0.0))));
                out.push(("weighted_std_1".into(), res_f(a.weighted_std(&wf, 1.0))));
            })
        }
    });
    for ax in 0..d {
        let sh1 = [c.shape[ax]];
        with_repr2!(kind, (&c.shape, &cn.f, &l, 777.0), (&sh1, &w1f[ax], &l1(ax + c.fill), 555.0), |a, w| {
            {
                let w = w.into_dimensionality::<Ix1>().unwrap();
                dims!(a, {
                    out.push((format!("weighted_sum_axis_{}", ax), res_arr(a.weighted_sum_axis(Axis(ax), &w).map(|x| x.into_dyn()))));
                    out.push((format!("weighted_mean_axis_{}", ax), res_arr(a.weighted_mean_axis(Axis(ax), &w).map(|x| x.into_dyn()))));
                    out.push((format!("weighted_var_axis_{}", ax), res_arr(a.weighted_var_axis(Axis(ax), &w, 0.5).map(|x| x.into_dyn()))));
                    out.push((format!("weighted_std_axis_{}", ax), res_arr(a.weighted_std_axis(Axis(ax), &w, 0.0).map(|x| x.into_dyn()))));
                })
            }
        });
        with_repr2!(kind, (&c.shape, &cn.i, &l, -99), (&sh1, &w1i[ax], &l1(ax + c.fill + 1), 55), |a, w| {
            {
                let w = w.into_dimensionality::<Ix1>().unwrap();
                dims!(a, {
                    out.push((format!("i64:weighted_sum_axis_{}", ax), res_arr_i(a.weighted_sum_axis(Axis(ax), &w).map(|x| x.into_dyn()))));
                    out.push((format!("i64:weighted_mean_axis_{}", ax), res_arr_i(a.weighted_mean_axis(Axis(ax), &w).map(|x| x.into_dyn()))));
                })
            }
        });
    }
    // --- i64
    with_repr2!(kind, (&c.shape, &cn.i, &l, -99), (&c.shape, &cn.i2, &l2, 55), |a, b| {
        {
            dims2!(a, b, {
                let mut p = |k: &str, v: Val| out.push((k.to_string(), v));
                p("i64:mean", Val::S(format!("{:?}", SummaryStatisticsExt::mean(&a))));
                p("i64:weighted_sum", Val::S(format!("{:?}", a.weighted_sum(&b))));
                p("i64:count_eq", Val::S(format!("{:?}", a.count_eq(&b))));
                p("i64:sq_l2_dist", Val::S(format!("{:?}", a.sq_l2_dist(&b))));
                p("i64:l1_dist", Val::S(format!("{:?}", a.l1_dist(&b))));
                p("i64:linf_dist", Val::S(format!("{:?}", a.linf_dist(&b))));
                p("i64:mean_sq_err", Val::S(format!("{:?}", a.mean_sq_err(&b))));
                p("i64:min", Val::S(format!("{:?}", QuantileExt::min(&a))));
                p("i64:max", Val::S(format!("{:?}", QuantileExt::max(&a))));
                p("i64:a[argmin]", Val::S(format!("{:?}", QuantileExt::argmin(&a).map(|i| a[i.into_dimension()]))));
                p("i64:a[argmax]", Val::S(format!("{:?}", QuantileExt::argmax(&a).map(|i| a[i.into_dimension()]))));
            })
        }
    });
    // --- skip-NaN read-only
    with_repr!(kind, &c.shape, &cn.nan, &l, 777.0, |a| {
        dims!(a, ro_nan(&a, &|x: &f64| if f64::is_nan(*x) { -1e9 } else { *x }, "f64nan", &mut out))
    });
    with_repr!(kind, &c.shape, &cn.opt, &l, Some(-99), |a| {
        dims!(a, ro_nan(&a, &|x: &Option<i32>| x.map(|v| v as f64).unwrap_or(-1e9), "opt", &mut out))
    });
    // --- mutating routines (not on read-only views)
    if kind != 0 {
        macro_rules! mutating {
            ($data:expr, $sent:expr, |$mk:ident| $body:expr) => {
                match kind {
                    2 => {
                        let $mk = || Host::new(&c.shape, $data, &l, $sent).into_owned_layout();
                        $body
                    }
                    3 => {
                        let $mk = || Host::new(&c.shape, $data, &l, $sent).into_owned_layout().into_shared();
                        $body
                    }
                    _ => {
                        let $mk = || CowArray::from(Host::new(&c.shape, $data, &l, $sent).into_owned_layout());
                        $body
                    }
                }
            };
        }
        // kind 1 (view_mut): run on views into a host, one host per call
        if kind == 1 {
            let nd = d;
            for ax in 0..nd {
                for (qi, q) in [0.0, 0.35, 0.5, 1.0].iter().enumerate() {
                    let mut h = Host::new(&c.shape, &cn.i32s, &l, -99);
                    let r = h.view_mut().quantile_axis_mut(Axis(ax), n64(*q), &Linear);
                    out.push((format!("quantile_axis_mut_{}_q{}_linear", ax, qi), Val::S(format!("{:?}", r.map(|x| x.into_dyn())))));
                    let mut h = Host::new(&c.shape, &cn.i32s, &l, -99);
                    let r = h.view_mut().quantile_axis_mut(Axis(ax), n64(*q), &Nearest);
                    out.push((format!("quantile_axis_mut_{}_q{}_nearest", ax, qi), Val::S(format!("{:?}", r.map(|x| x.into_dyn())))));
                }
                let mut h = Host::new(&c.shape, &cn.i32s, &l, -99);
                let r = h.view_mut().quantiles_axis_mut(Axis(ax), &Array1::from(vec![n64(0.9), n64(0.1), n64(0.5), n64(0.1)]), &Linear);
                out.push((format!("quantiles_axis_mut_{}", ax), Val::S(format!("{:?}", r.map(|x| x.into_dyn())))));
                for (qi, q) in [0.0, 0.5, 0.8].iter().enumerate() {
                    let mut h = Host::new(&c.shape, &cn.nan, &l, 777.0);
                    let r = h.view_mut().quantile_axis_skipnan_mut(Axis(ax), n64(*q), &Linear);
                    out.push((format!("f64nan:quantile_axis_skipnan_mut_{}_q{}", ax, qi), match r {
                        Ok(x) => Val::F(x.iter().map(|v| if f64::is_nan(*v) { -1e9 } else { *v }).collect()),
                        Err(e) => Val::S(format!("{:?}", e)),
                    }));
                    let mut h = Host::new(&c.shape, &cn.opt, &l, Some(-99));
                    let r = h.view_mut().quantile_axis_skipnan_mut(Axis(ax), n64(*q), &Linear);
                    out.push((format!("opt:quantile_axis_skipnan_mut_{}_q{}", ax, qi), match r {
                        Ok(x) => Val::F(x.iter().map(|v| v.map(|t| t as f64).unwrap_or(-1e9)).collect()),
                        Err(e) => Val::S(format!("{:?}", e)),
                    }));
                }
                let keyf = |x: &f64| if f64::is_nan(*x) { -1e9 } else { *x };
                let mut h = Host::new(&c.shape, &cn.nan, &l, 777.0);
                let mut v = h.view_mut();
                let r = v.map_axis_skipnan_mut(Axis(ax), |lane| {
                    let mut s: Vec<f64> = lane.iter().map(|x| keyf(&x.raw())).collect();
                    s.sort_by(|x, y| x.partial_cmp(y).unwrap());
                    s.iter().enumerate().map(|(i, x)| (i as f64 + 1.0) * x).sum::<f64>() + 1000.0 * s.len() as f64
                });
                out.push((format!("f64nan:map_axis_skipnan_mut_{}", ax), Val::F(r.iter().cloned().collect())));
                let mut h = Host::new(&c.shape, &cn.nan, &l, 777.0);
                let mut v = h.view_mut();
                let r = v.map_axis_skipnan_mut(Axis(ax), |lane| lane.iter().enumerate().map(|(i, x)| (i as f64 + 1.0) * keyf(&x.raw())).sum::<f64>());
                out.push((format!("f64nan:map_axis_skipnan_mut_in_lane_order_{}", ax), Val::F(r.iter().cloned().collect())));
                let mut h = Host::new(&c.shape, &cn.opt, &l, Some(-99));
                let mut v = h.view_mut();
                let r = v.map_axis_skipnan_mut(Axis(ax), |lane| {
                    let mut s: Vec<f64> = lane.iter().map(|x| <Option<i32>>::from_not_nan(x.clone()).map(|t| t as f64).unwrap_or(-1e9)).collect();
                    s.sort_by(|x, y| x.partial_cmp(y).unwrap());
                    s.iter().enumerate().map(|(i, x)| (i as f64 + 1.0) * x).sum::<f64>() + 1000.0 * s.len() as f64
                });
                out.push((format!("opt:map_axis_skipnan_mut_{}", ax), Val::F(r.iter().cloned().collect())));
            }
            if d == 1 {
                let mk = || Host::new(&c.shape, &cn.i32s, &l, -99);
                let n = c.shape[0];
                let mut h = mk();
                out.push(("quantile_mut".into(), Val::S(format!("{:?}", h.view_mut().into_dimensionality::<Ix1>().unwrap().quantile_mut(n64(0.4), &Linear)))));
                let mut h = mk();
                out.push(("quantiles_mut".into(), Val::S(format!("{:?}", h.view_mut().into_dimensionality::<Ix1>().unwrap().quantiles_mut(&Array1::from(vec![n64(1.0), n64(0.2), n64(0.2)]), &Nearest)))));
                for i in 0..n {
                    let mut h = mk();
                    out.push((format!("get_from_sorted_mut_{}", i), Val::I(vec![h.view_mut().into_dimensionality::<Ix1>().unwrap().get_from_sorted_mut(i) as i64])));
                    let mut h = mk();
                    let mut v = h.view_mut().into_dimensionality::<Ix1>().unwrap();
                    let pv = v[i];
                    let k = v.partition_mut(i);
                    out.push((format!("partition_mut_{}", i), Val::I(vec![k as i64, (v[k] == pv) as i64])));
                }
                let mut h = mk();
                let m = h.view_mut().into_dimensionality::<Ix1>().unwrap().get_many_from_sorted_mut(&Array1::from(vec![n - 1, 0, n / 2, 0]));
                out.push(("get_many_from_sorted_mut".into(), Val::S(format!("{:?}", m.into_iter().collect::<Vec<_>>()))));
            }
        } else {
            mutating!(&cn.i32s, -99, |mk| {
                if stat && d == 2 {
                    mut_i32(&|| mk().into_dimensionality::<Ix2>().unwrap(), &mut out)
                } else if stat && d == 3 {
                    mut_i32(&|| mk().into_dimensionality::<Ix3>().unwrap(), &mut out)
                } else {
                    mut_i32(&mk, &mut out)
                }
                if d == 1 {
                    mut_i32_1d(&|| mk().into_dimensionality::<Ix1>().unwrap(), &mut out);
                }
            });
            mutating!(&cn.nan, 777.0, |mk| mut_nan(&mk, &|x: &f64| if f64::is_nan(*x) { -1e9 } else { *x }, "f64nan", &mut out));
            mutating!(&cn.opt, Some(-99), |mk| mut_nan(&mk, &|x: &Option<i32>| x.map(|v| v as f64).unwrap_or(-1e9), "opt", &mut out));
        }
    }
    // --- 1-D: Edges / Bins built from an OWNED array in this layout (its allocation holds more cells than it shows)
    if d == 1 {
        let owned = if canonical { ndarray::Array1::from(cn.i.clone()) } else { Host::new(&c.shape, &cn.i, &l, -99).into_owned_layout().into_dimensionality::<Ix1>().unwrap() };
        let edges = Edges::from(owned);
        out.push(("edges_from_owned_array1".into(), Val::I(edges.iter().cloned().collect())));
        let bins = Bins::new(edges);
        out.push(("bins_index_of".into(), Val::S(format!("{:?}", (-6..8).map(|v| bins.index_of(&v)).collect::<Vec<_>>()))));
    }
    // --- 2-D only
    if d == 2 {
        with_repr!(kind, &c.shape, &cn.f, &l, 777.0, |a| {
            let a = a.into_dimensionality::<Ix2>().unwrap();
            two_d_f64(&a, &mut out)
        });
        with_repr!(kind, &c.shape, &cn.i, &l, -99, |a| {
            let a = a.into_dimensionality::<Ix2>().unwrap();
            two_d_i64(&a, &mut out)
        });
    }
    out
}

fn compare(canon: &Sig, got: &Sig, c: &Case, lx: &mut Local) {
    use std::collections::BTreeMap;
    let cm: BTreeMap<&String, &Val> = canon.iter().map(|(k, v)| (k, v)).collect();
    let mut compared = 0u64;
    for (k, v) in got {
        let w = match cm.get(k) {
            Some(w) => *w,
            None => {
                lx.machinery_error = Some(format!("routine {} missing from the canonical signature", k));
                return;
            }
        };
        compared += 1;
        let ok = match (v, w) {
            (Val::F(a), Val::F(b)) => a.len() == b.len() && a.iter().zip(b).all(|(x, y)| (f64::is_nan(*x) && f64::is_nan(*y)) || x == y || (x.is_finite() && y.is_finite() && (x - y).abs() <= 1e-10 + 1e-10 * x.abs().max(y.abs()))),
            (a, b) => a == b,
        };
        if !ok {
            // key = routine name without its axis / q-index suffixes
            let base: Vec<&str> = k.split('_').filter(|p| !(p.chars().all(|ch| ch.is_ascii_digit()) || (p.starts_with('q') && p[1..].chars().all(|ch| ch.is_ascii_digit()) && p.len() > 1))).collect();
            let key = format!("C20/{}", base.join("_"));
            lx.fail(&key, || format!("{} differs: representation gives {:?}, canonical owned C-order array gives {:?}; {:?}", k, v, w, c));
        }
    }
    lx.count("routine_results_compared", compared);
}

/// Outcome of the routines that can fail, as text that does not depend on the representation
/// (errors as they are, arrays as shape + values).
fn outcome<D: Dimension, E: std::fmt::Debug>(r: Result<Array<i32, D>, E>) -> String {
    match r {
        Ok(a) => format!("Ok(shape {:?}, values {:?})", a.shape(), a.iter().cloned().collect::<Vec<_>>()),
        Err(e) => format!("Err({:?})", e),
    }
}

/// Every fallible entry point on one representation of an i32 array; `make` builds a fresh copy.
fn fallible<S: DataMut<Elem = i32>, D: Dimension + RemoveAxis>(make: &dyn Fn() -> ArrayBase<S, D>, out: &mut Vec<(String, String)>) {
    fallible_with(make, false, out)
}

/// `rev_qs`: the request list of the bulk form is handed over as a reversed view of an array holding
/// it backwards (logically the same list; another representation of the *argument*).
fn fallible_with<S: DataMut<Elem = i32>, D: Dimension + RemoveAxis>(make: &dyn Fn() -> ArrayBase<S, D>, rev_qs: bool, out: &mut Vec<(String, String)>) {
    let nd = make().ndim();
    let qs: [f64; 6] = [-0.5, -1e-300, 0.0, 0.5, 1.0, 1.0000000000000002];
    for ax in 0..nd {
        for q in qs {
            let r = guarded(|| make().quantile_axis_mut(Axis(ax), n64(q), &Nearest).map(|x| x.into_dyn()));
            out.push((format!("quantile_axis_mut(axis {}, q {:e})", ax, q), match r { Ok(r) => outcome(r), Err(m) => format!("panic: {}", m) }));
        }
        for ql in [vec![], vec![0.5], vec![0.5, 2.0], vec![-1.0, 0.5], vec![0.25, 0.75], vec![-1.0, 0.5, 2.0], vec![3.0, 1.0, -2.0]] {
            let qa = Array1::from(ql.iter().map(|&q| n64(q)).collect::<Vec<_>>());
            let backwards = Array1::from(ql.iter().rev().map(|&q| n64(q)).collect::<Vec<_>>());
            let r = if rev_qs {
                let view = backwards.slice(ndarray::s![..;-1]);
                guarded(|| make().quantiles_axis_mut(Axis(ax), &view, &Nearest).map(|x| x.into_dyn()))
            } else {
                guarded(|| make().quantiles_axis_mut(Axis(ax), &qa, &Nearest).map(|x| x.into_dyn()))
            };
            out.push((format!("quantiles_axis_mut(axis {}, {:?})", ax, ql), match r { Ok(r) => outcome(r), Err(m) => format!("panic: {}", m) }));
        }
    }
    let a = make();
    out.push(("min".into(), format!("{:?}", guarded(|| a.min().map(|x| *x)))));
    out.push(("max".into(), format!("{:?}", guarded(|| a.max().map(|x| *x)))));
    out.push(("argmin is_ok".into(), format!("{:?}", guarded(|| a.argmin().is_ok()))));
    out.push(("argmax is_ok".into(), format!("{:?}", guarded(|| a.argmax().is_ok()))));
    out.push(("mean".into(), format!("{:?}", guarded(|| SummaryStatisticsExt::mean(&a)))));
    out.push(("weighted_sum with itself".into(), format!("{:?}", guarded(|| a.weighted_sum(&a)))));
    out.push(("sq_l2_dist with itself".into(), format!("{:?}", guarded(|| a.sq_l2_dist(&a)))));
    out.push(("count_eq with itself".into(), format!("{:?}", guarded(|| a.count_eq(&a)))));
}

macro_rules! fallible_static {
    ($dim:ty, $base:expr, $tag:expr, $sets:expr) => {{
        let st: Array<i32, $dim> = $base.clone().into_dimensionality::<$dim>().unwrap();
        let mut o = Vec::new();
        fallible(&|| st.clone(), &mut o);
        $sets.push((format!("{} static owned", $tag), o));
        let mut o = Vec::new();
        fallible(&|| st.clone().into_shared(), &mut o);
        $sets.push((format!("{} static shared", $tag), o));
        let mut o = Vec::new();
        let f = st.clone().reversed_axes().as_standard_layout().into_owned().reversed_axes();
        fallible(&|| f.clone(), &mut o);
        $sets.push((format!("{} static column-major", $tag), o));
    }};
}

fn main() {
    let mut rep = Report::new("C20");
    rep.rule = "case = (shape, fill, layout, ownership kind, static/dynamic dimensionality); every public routine is evaluated on the representation and compared with the same routine on the canonical owned C-order array; non-trivial = layout is not plain C order or ownership is not plain owned".into();
    rep.assume("order-based, integer and index-derived results must be equal (==); floating-point sums within 1e-10 absolute + 1e-10 relative of the canonical result (data are O(1) and n <= 16, so rounding differences between summation orders are < 1e-13 while any change of pairing or traversal moves results by > 1e-3)");
    rep.assume("arg-min/max style results are compared through the value at the returned logical index (which of several equal extrema is returned is unspecified)");
    let thorough = rep.cfg.thorough();
    let st = [1isize, 2, -1, -2];
    let mut cases: Vec<Case> = Vec::new();
    for shape in [vec![5usize], vec![2, 3], vec![3, 2, 2], vec![2, 2, 2, 2]] {
        let d = shape.len();
        let layouts = if d == 4 && !thorough { covering_layouts(d, &st) } else { all_layouts(d, &st) };
        for (li, l) in layouts.iter().enumerate() {
            for fill in 0..3usize {
                for kind in 0..6u8 {
                    // 3-D / 4-D: ownership kinds rotate over the layouts instead of the full product (quick tier)
                    if d >= 4 && !thorough && (li + fill) % 3 != (kind as usize) % 3 {
                        continue;
                    }
                    cases.push(Case { shape: shape.clone(), layout: l.clone(), fill, kind, stat: (li + kind as usize) % 2 == 0 });
                }
            }
        }
    }
    rep.run_sub(
        "representations",
        &format!("shapes (5,), (2,3), (3,2,2), (2,2,2,2) x 3 fills (signed distinct-ish, heavy ties, mixed; NaN / None variants) x all layouts (4-D: {}) x ownership kinds {{view, view_mut, owned with non-standard strides, ArcArray, CowArray borrowed, CowArray owned}} ({}) x IxN / IxDyn alternating; ~60-150 routine results per case: quantile family incl. skip-NaN, selection, arg/min/max, summary statistics incl. axis forms, deviation, entropy, correlation, MaybeNanExt folds and maps, histogram, GridBuilder; second operands and weights in a different layout", if thorough { "all" } else { "covering subset" }, if thorough { "full product" } else { "1-D..3-D: full product; 4-D: kinds rotate over layouts" }),
        cases.into_iter(),
        |c, lx| {
            lx.nontrivial(!c.layout.is_plain() || c.kind != 2);
            lx.single(|lx| {
                let canonical = guarded(|| sig_for(c, true));
                let got = guarded(|| sig_for(c, false));
                match (canonical, got) {
                    (Ok(cs), Ok(gs)) => {
                        compare(&cs, &gs, c, lx);
                        hash_of(&format!("{:?}", gs.len()))
                    }
                    (Err(m), _) => {
                        lx.fail("C20/panic-on-canonical", || format!("a routine panicked on the canonical array: {}; {:?}", m, c));
                        0
                    }
                    (_, Err(m)) => {
                        lx.fail("C20/panic", || format!("a routine panicked on the representation: {}; {:?}", m, c));
                        1
                    }
                }
            });
        },
    );
    // errors and edge results across representations: empty axes, q outside [0, 1], empty request lists
    let eshapes: Vec<Vec<usize>> = vec![vec![0], vec![1], vec![3], vec![0, 3], vec![3, 0], vec![2, 2], vec![2, 0, 2], vec![1, 2, 2]];
    rep.run_sub(
        "fallible-calls-across-representations",
        "shapes (0), (1), (3), (0,3), (3,0), (2,2), (2,0,2), (1,2,2) of i32 x {quantile_axis_mut at q in {-0.5, -1e-300, 0, 0.5, 1, 1+ulp}, quantiles_axis_mut with empty / valid / partly invalid request lists, on every axis; min, max, argmin, argmax, mean, weighted_sum / sq_l2_dist / count_eq with itself}: the outcome (value, or which error, or a panic) is the same for the dynamic-dimension owned array, its static-dimension twin, a shared (ArcArray) handle, a column-major copy and a view; and for request lists handed over as reversed views",
        eshapes.into_iter(),
        |shape, lx| {
            lx.nontrivial(true);
            lx.single(|lx| {
                let n: usize = shape.iter().product();
                let base = ArrayD::from_shape_vec(IxDyn(shape), (0..n).map(|i| ((i * 7 + 3) % 5) as i32 - 2).collect()).unwrap();
                let mut sets: Vec<(String, Vec<(String, String)>)> = Vec::new();
                let mut o = Vec::new();
                fallible(&|| base.clone(), &mut o);
                sets.push(("dynamic owned".into(), o));
                let mut o = Vec::new();
                fallible(&|| base.clone().into_shared(), &mut o);
                sets.push(("dynamic shared".into(), o));
                let mut o = Vec::new();
                fallible_with(&|| base.clone(), true, &mut o);
                sets.push(("dynamic owned, request lists as reversed views".into(), o));
                let mut o = Vec::new();
                fallible(&|| CowArray::from(base.view()), &mut o);
                sets.push(("dynamic copy-on-write over a view".into(), o));
                match shape.len() {
                    1 => fallible_static!(Ix1, base, "1-D", sets),
                    2 => fallible_static!(Ix2, base, "2-D", sets),
                    _ => fallible_static!(Ix3, base, "3-D", sets),
                }
                let (ref_name, reference) = sets[0].clone();
                for (name, o) in sets.iter().skip(1) {
                    for ((call, want), (_, got)) in reference.iter().zip(o.iter()) {
                        lx.check(want == got, "C20/outcome-depends-on-representation", || format!("shape {:?}: {} gives {} on the {} array but {} on the {} one", shape, call, want, ref_name, got, name));
                    }
                    lx.check(reference.len() == o.len(), "C20/outcome-count", || format!("shape {:?}: {} outcomes vs {}", shape, reference.len(), o.len()));
                }
                hash_of(&reference)
            });
        },
    );
    // operands that are views of one buffer against the same logical operands in separate buffers
    let acases = nsmc::patterns::sequences(9, 3).map(|d| (d, 0u8)).chain((3..=5usize).flat_map(|m| nsmc::patterns::sequences(m, 3).flat_map(|d| (1..4u8).map(move |k| (d.clone(), k)))));
    rep.run_sub(
        "aliasing-operands",
        "binary routines (count_eq, count_neq, sq_l2_dist, l1_dist, linf_dist, weighted_sum, weighted_mean, mean_abs_err, cross_entropy-free integer set) on two views of ONE buffer - a 3x3 matrix and its transpose (all 3^9 contents), buf[..n] and buf[..2n-1;2], overlapping windows, a buffer and its reversed view (all contents over 3 values, length 3..=5) - against the same logical operands copied into separate buffers: identical results",
        acases,
        |(digits, kind), lx| {
            lx.nontrivial(digits.iter().any(|&d| d != digits[0]));
            lx.single(|lx| {
                let vi: Vec<i64> = digits.iter().map(|&d| [-2i64, 1, 5][d as usize]).collect();
                let vf: Vec<f64> = digits.iter().map(|&d| [-1.5f64, 0.25, 3.0][d as usize]).collect();
                macro_rules! both {
                    ($a:expr, $b:expr, $af:expr, $bf:expr, $what:expr) => {{
                        let (a, b) = ($a, $b);
                        let (af, bf) = ($af, $bf);
                        let (oa, ob) = (a.to_owned(), b.to_owned());
                        let (oaf, obf) = (af.to_owned(), bf.to_owned());
                        let aliased = guarded(|| format!("{:?} {:?}", (a.count_eq(&b), a.count_neq(&b), a.sq_l2_dist(&b), a.l1_dist(&b), a.linf_dist(&b), a.weighted_sum(&b), a.mean_abs_err(&b)), (af.sq_l2_dist(&bf), af.l1_dist(&bf), af.linf_dist(&bf), af.weighted_sum(&bf), af.weighted_mean(&bf), af.mean_sq_err(&bf))));
                        let separate = guarded(|| format!("{:?} {:?}", (oa.count_eq(&ob), oa.count_neq(&ob), oa.sq_l2_dist(&ob), oa.l1_dist(&ob), oa.linf_dist(&ob), oa.weighted_sum(&ob), oa.mean_abs_err(&ob)), (oaf.sq_l2_dist(&obf), oaf.l1_dist(&obf), oaf.linf_dist(&obf), oaf.weighted_sum(&obf), oaf.weighted_mean(&obf), oaf.mean_sq_err(&obf))));
                        lx.check(aliased == separate, "C20/aliasing-operands", || format!("{} over {:?}: (count_eq, count_neq, sq_l2, l1, linf, weighted_sum, mae | f64: sq_l2, l1, linf, weighted_sum, weighted_mean, mse) = {:?} on the views of one buffer but {:?} on separate copies", $what, vi, aliased, separate));
                        hash_of(&aliased)
                    }};
                }
                let (bi, bf) = (Array1::from(vi.clone()), Array1::from(vf.clone()));
                let m = vi.len();
                match kind {
                    0 => {
                        let (si, sf) = (Array2::from_shape_vec((3, 3), vi.clone()).unwrap(), Array2::from_shape_vec((3, 3), vf.clone()).unwrap());
                        both!(si.view(), si.t(), sf.view(), sf.t(), "a 3x3 matrix and its transpose")
                    }
                    1 => {
                        let n = (m + 1) / 2;
                        both!(bi.slice(ndarray::s![..n]), bi.slice(ndarray::s![..2 * n - 1;2]), bf.slice(ndarray::s![..n]), bf.slice(ndarray::s![..2 * n - 1;2]), "buf[..n] and buf[..2n-1;2]")
                    }
                    2 => both!(bi.slice(ndarray::s![..m - 1]), bi.slice(ndarray::s![1..]), bf.slice(ndarray::s![..m - 1]), bf.slice(ndarray::s![1..]), "overlapping windows"),
                    _ => both!(bi.view(), bi.slice(ndarray::s![..;-1]), bf.view(), bf.slice(ndarray::s![..;-1]), "a buffer and its reversed view"),
                }
            });
        },
    );
    rep.finish();
}
