//! C08 — covariance and Pearson correlation follow their definitions.
use ndarray::prelude::*;
use ndarray_stats::CorrelationExt;
use nsmc::exact::{sum, Rat};
use nsmc::fl::{self, err_of, rats, Fl};
use nsmc::layouts::{all_layouts, Host, Layout};
use nsmc::*;

const ALPHA: [f64; 4] = [-1.0, 0.0, 0.5, 2.0];

#[derive(Debug, Clone)]
struct Case {
    r: usize,
    o: usize,
    /// matrix index in base 4 (complete family) or family id (structured)
    code: u64,
    structured: bool,
    off: u8,
    ty: u8,
    layout: Layout,
}

fn matrix_of(c: &Case) -> Vec<f64> {
    let n = c.r * c.o;
    if !c.structured {
        let mut x = c.code;
        let mut v = vec![0.0; n];
        for i in (0..n).rev() {
            v[i] = ALPHA[(x % 4) as usize];
            x /= 4;
        }
        v
    } else {
        // deterministic families: row i, observation k
        let fam = c.code as usize;
        let mut v = vec![0.0; n];
        for i in 0..c.r {
            for k in 0..c.o {
                let t = k as f64;
                if fam >= 6 {
                    // mixed scales: a huge, inexactly summed mean next to a tiny spread (fam 6), and a size sweep fill (fam 7)
                    if fam == 8 {
                        // strongly but not perfectly correlated rows: row i = ramp + 1e-5 * small wiggle(i, k)
                        v[i * c.o + k] = t * 0.5 + 1.0 + 1e-5 * (((k * (i + 2) + i) % 3) as f64 - 1.0) * (i as f64);
                        continue;
                    }
                    v[i * c.o + k] = if fam == 6 {
                        if i % 2 == 0 { 1e10 + t * 0.1 + (k % 3) as f64 } else { 1.0 + ((k * 7) % 11) as f64 * 1e-6 }
                    } else {
                        ((k * (5 + 2 * i) + i) % 13) as f64 * 0.25 - 1.0 + if (k + i) % 16 == 15 { 3.0 } else { 0.0 }
                    };
                    continue;
                }
                let base = match (fam + i) % 6 {
                    0 => t,                                             // ramp
                    1 => (t * t) % 7.0 - 3.0,                           // quadratic residues
                    2 => -t + 0.5,                                      // negated ramp (correlation -1 with family 0)
                    3 => if k == c.o - 1 { 1000.0 } else { (k % 3) as f64 }, // one heavy outlier
                    4 => ((k * 5 + i) % 4) as f64 * 0.25 - 0.1,         // small non-representable values
                    _ => (1u64 << (k % 20)) as f64,                     // powers of two
                };
                v[i * c.o + k] = base;
            }
        }
        v
    }
}

struct Exact {
    /// sum_k (x_ik - xbar_i)(x_jk - xbar_j)
    cross: Vec<Vec<Rat>>,
    abs_cross: Vec<Vec<Rat>>,
    mean_abs: Vec<f64>,
    sumsq: Vec<Rat>,
}

fn exact_of<T: Fl>(m: &[T], r: usize, o: usize) -> Exact {
    let rows: Vec<Vec<Rat>> = (0..r).map(|i| rats(&m[i * o..(i + 1) * o])).collect();
    let means: Vec<Rat> = rows.iter().map(|row| fl::mean(row)).collect();
    let dev: Vec<Vec<Rat>> = rows.iter().zip(&means).map(|(row, mu)| row.iter().map(|x| x - mu).collect()).collect();
    let mut cross = vec![vec![Rat::zero(); r]; r];
    let mut abs_cross = vec![vec![Rat::zero(); r]; r];
    for i in 0..r {
        for j in 0..r {
            let mut s = Rat::zero();
            let mut a = Rat::zero();
            for k in 0..o {
                let t = &dev[i][k] * &dev[j][k];
                a = &a + &t.abs();
                s = &s + &t;
            }
            cross[i][j] = s;
            abs_cross[i][j] = a;
        }
    }
    let mean_abs = rows.iter().map(|row| fl::abs_sum(row).to_f64_up_abs() / o as f64).collect();
    let sumsq = rows.iter().map(|row| sum(row.iter().map(|x| x * x).collect::<Vec<_>>().iter())).collect();
    Exact { cross, abs_cross, mean_abs, sumsq }
}

fn cov_bound<T: Fl>(e: &Exact, i: usize, j: usize, o: usize, dof: f64) -> f64 {
    let u = T::U;
    let of = o as f64;
    let di = (of + 2.0) * u * e.mean_abs[i];
    let dj = (of + 2.0) * u * e.mean_abs[j];
    (4.0 * (of + 4.0) * u * e.abs_cross[i][j].to_f64_up_abs() + of * di * dj) / dof.abs() + f64::MIN_POSITIVE
}

fn run<T: Fl + 'static>(c: &Case, lx: &mut Local) {
    let (r, o) = (c.r, c.o);
    let off = if T::NAME == "f32" { [0.0, 64.0][c.off as usize % 2] } else { [0.0, 1e6][c.off as usize % 2] };
    // off >= 2: the whole data set at an extreme scale (variances still representable, their products not)
    let gscale = match c.off {
        2 => if T::NAME == "f32" { 1e10 } else { 1e80 },
        3 => if T::NAME == "f32" { 1e-12 } else { 1e-85 },
        _ => 1.0,
    };
    let off = if c.off >= 2 { 0.0 } else { off };
    let m: Vec<T> = matrix_of(c).iter().map(|&x| T::of((x + off) * gscale)).collect();
    let e = exact_of(&m, r, o);
    let u = T::U;
    let ddofs: Vec<f64> = vec![0.0, 1.0, 0.5, o as f64 - 0.25];
    lx.single(|lx| {
        let h = Host::new(&[r, o], &m, &c.layout, T::of(777.0));
        let v = h.view().into_dimensionality::<Ix2>().unwrap();
        let mut obs: Vec<u64> = Vec::new();
        for &ddof in &ddofs {
            let dof = o as f64 - ddof;
            if dof <= 0.0 {
                continue;
            }
            match guarded(|| v.cov(T::of(ddof))) {
                Ok(Ok(cv)) => {
                    if !lx.check(cv.shape() == [r, r], "C08/cov-shape", || format!("cov shape {:?} for {} variables: {:?}", cv.shape(), r, c)) {
                        continue;
                    }
                    let dofr = Rat::from_f64(dof);
                    for i in 0..r {
                        for j in 0..r {
                            let want = &e.cross[i][j] / &dofr;
                            let b = cov_bound::<T>(&e, i, j, o, dof);
                            let g = cv[[i, j]].to_f64_();
                            let er = err_of(g, &want);
                            lx.ratio("cov", er / b);
                            lx.within(er, b, "C08/cov-value", || format!("[{}] cov(ddof {})[{},{}] = {:e}, exact {:e}, error {:e} > bound {:e}; matrix {:?} ({}x{}) layout {:?}", T::NAME, ddof, i, j, g, want.to_f64(), er, b, m, r, o, c.layout));
                            let gs = cv[[j, i]].to_f64_();
                            lx.within((g - gs).abs(), 2.0 * b, "C08/cov-asymmetric", || format!("[{}] cov[{},{}] = {:e} but cov[{},{}] = {:e}; {:?}", T::NAME, i, j, g, j, i, gs, c));
                            if i == j {
                                lx.check(g >= -b, "C08/cov-negative-diagonal", || format!("[{}] cov[{},{}] = {:e} < 0; {:?}", T::NAME, i, i, g, c));
                            }
                            obs.push(cv[[i, j]].bits_());
                        }
                    }
                }
                other => lx.fail("C08/cov-failed", || format!("[{}] cov(ddof {}) failed: {:?}; {:?}", T::NAME, ddof, other.map(|r| r.map(|_| ())), c)),
            }
        }
        // Pearson
        let constant: Vec<bool> = (0..r).map(|i| e.cross[i][i].is_zero()).collect();
        if constant.iter().any(|&b| b) {
            lx.skip("pearson_correlation: a variable is constant (outside the property's domain)");
            return hash_of(&obs);
        }
        let of = o as f64;
        let kappa: Vec<f64> = (0..r).map(|i| (e.sumsq[i].to_f64_up_abs() / e.cross[i][i].to_f64()).sqrt()).collect();
        let tol = |i: usize, j: usize| 8.0 * (of + 8.0) * u * (1.0 + kappa[i] + kappa[j]);
        let rho = |i: usize, j: usize| -> f64 {
            let num = &e.cross[i][j];
            let r2 = (&(num * num) / &(&e.cross[i][i] * &e.cross[j][j])).to_f64();
            let s = r2.sqrt();
            if num.is_negative() {
                -s
            } else {
                s
            }
        };
        let base = match guarded(|| v.pearson_correlation()) {
            Ok(Ok(p)) => p,
            other => {
                lx.fail("C08/pearson-failed", || format!("[{}] pearson_correlation failed: {:?}; {:?}", T::NAME, other.map(|r| r.map(|_| ())), c));
                return hash_of(&obs);
            }
        };
        if !lx.check(base.shape() == [r, r], "C08/pearson-shape", || format!("pearson shape {:?}: {:?}", base.shape(), c)) {
            return hash_of(&obs);
        }
        // ill-conditioned (large offset relative to spread): tolerance would exceed 0.1, skip the value checks but count
        for i in 0..r {
            for j in 0..r {
                let t = tol(i, j);
                if t > 0.05 {
                    lx.skip("pearson entry: conditioning makes the tolerance exceed 0.05");
                    continue;
                }
                let g = base[[i, j]].to_f64_();
                let want = rho(i, j);
                lx.ratio("pearson", (g - want).abs() / t);
                lx.within((g - want).abs(), t, "C08/pearson-value", || format!("[{}] pearson[{},{}] = {:e}, exact {:e}, tolerance {:e}; matrix {:?} ({}x{})", T::NAME, i, j, g, want, t, m, r, o));
                lx.check(g >= -1.0 - t && g <= 1.0 + t, "C08/pearson-out-of-range", || format!("[{}] pearson[{},{}] = {:e}; {:?}", T::NAME, i, j, g, c));
                if i == j {
                    lx.within((g - 1.0).abs(), t, "C08/pearson-diagonal", || format!("[{}] pearson[{},{}] = {:e}; {:?}", T::NAME, i, i, g, c));
                }
                obs.push(base[[i, j]].bits_());
            }
        }
        // metamorphic: affine rescaling of variable 0 (positive scale) leaves the matrix unchanged; negation flips row/column 0
        // (not at the extreme global scales: a further factor of 1e-13 there underflows to subnormals,
        // where the invariance cannot hold in floating point)
        let factors: &[(f64, f64)] = if c.off >= 2 { &[(2.0, 0.0), (-1.0, 0.0)] } else { &[(2.0, 0.0), (0.5, 1.0), (3.0, -10.0), (-1.0, 0.0), (1e-9, 0.0), (1e-13, 0.0), (1e9, 0.0), (-1e-11, 0.0)] };
        for &(a, b) in factors {
            let mut m2 = m.clone();
            for k in 0..o {
                m2[k] = T::of(a * m[k].to_f64_() + b);
            }
            // the transformed values must be exactly what the map prescribes for the law to apply: re-derive exact stats
            let e2 = exact_of(&m2, r, o);
            if e2.cross[0][0].is_zero() {
                continue;
            }
            let k0 = (e2.sumsq[0].to_f64_up_abs() / e2.cross[0][0].to_f64()).sqrt();
            let h2 = Host::new(&[r, o], &m2, &c.layout, T::of(777.0));
            let v2 = h2.view().into_dimensionality::<Ix2>().unwrap();
            if let Ok(Ok(p2)) = guarded(|| v2.pearson_correlation()) {
                for i in 0..r {
                    for j in 0..r {
                        let sign = if a < 0.0 && ((i == 0) != (j == 0)) { -1.0 } else { 1.0 };
                        let ki = if i == 0 { k0 } else { kappa[i] };
                        let kj = if j == 0 { k0 } else { kappa[j] };
                        let t2 = 8.0 * (of + 8.0) * u * (1.0 + ki + kj);
                        let t = tol(i, j) + t2;
                        if t > 0.05 {
                            continue;
                        }
                        // rounding of a*x+b changes the data slightly: compare against the exact value of the transformed data as well
                        let g1 = base[[i, j]].to_f64_() * sign;
                        let g2 = p2[[i, j]].to_f64_();
                        let exact_shift = {
                            let num = &e2.cross[i][j];
                            let r2 = (&(num * num) / &(&e2.cross[i][i] * &e2.cross[j][j])).to_f64().sqrt();
                            let w2 = if num.is_negative() { -r2 } else { r2 };
                            (w2 - rho(i, j) * sign).abs()
                        };
                        lx.within((g1 - g2).abs(), t + exact_shift, "C08/pearson-not-invariant", || format!("[{}] pearson[{},{}] = {:e} but after x0 -> {}*x0+{} it is {:e} (expected sign {}); matrix {:?} ({}x{})", T::NAME, i, j, base[[i, j]].to_f64_(), a, b, g2, sign, m, r, o));
                    }
                }
            } else {
                lx.fail("C08/pearson-failed", || format!("pearson_correlation failed after rescaling: {:?}", c));
            }
        }
        hash_of(&obs)
    });
}

fn main() {
    let mut rep = Report::new("C08");
    rep.rule = "case = (matrix over the alphabet {-1,0,0.5,2} or structured family, offset, element type, layout); inside: ddof in {0,1,0.5,o-0.25}, Pearson, affine/sign metamorphic variants; non-trivial = at least 2 variables".into();
    rep.assume("exact rational covariance; bound 4(o+4)u*sum|dx_i||dx_j|/|o-ddof| + o*delta_i*delta_j/|o-ddof|; Pearson tolerance 8(o+8)u(1+kappa_i+kappa_j) with kappa = sqrt(sum x^2/(o sigma^2)); entries whose tolerance would exceed 0.05 and constant variables are skipped and counted");
    let thorough = rep.cfg.thorough();
    let layouts = all_layouts(2, &[1, 2, -1, -2]);
    let mut cases: Vec<Case> = Vec::new();
    let sizes: Vec<(usize, usize, u64)> = vec![(1, 2, 1), (2, 2, 1), (1, 3, 1), (2, 3, 1), (3, 2, 1), (2, 4, 1), (3, 3, if thorough { 1 } else { 4 })];
    for &(r, o, stride) in &sizes {
        let total = 4u64.pow((r * o) as u32);
        let mut code = 0u64;
        while code < total {
            for off in 0..2u8 {
                let ty = ((code + off as u64) % 2) as u8;
                let li = ((code * 7 + off as u64 * 3) % layouts.len() as u64) as usize;
                cases.push(Case { r, o, code, structured: false, off, ty, layout: layouts[li].clone() });
            }
            // stride > 1: a sub-lattice that still visits every value at every cell
            code += stride + if stride > 1 { (code / 64) % 3 } else { 0 };
        }
    }
    rep.run_sub(
        "complete-small-matrices",
        &format!("every (variables x observations) matrix over {{-1,0,0.5,2}} for sizes 1x2, 2x2, 1x3, 2x3, 3x2 (complete), 2x4 and 3x3 ({}), at offsets 0 and 1e6 (f32: 64), f64/f32 alternating, layout rotating over all 40 2-D layouts; cov with ddof 0,1,0.5,o-0.25; pearson_correlation; invariance under x0 -> 2x0, 0.5x0+1, 3x0-10, 1e-9 x0, 1e-13 x0, 1e9 x0 and sign flip under x0 -> -x0, -1e-11 x0", if thorough { "complete" } else { "2x4 complete; 3x3: sub-lattice of about every 5th matrix" }),
        cases.into_iter(),
        |c, lx| {
            lx.nontrivial(c.r >= 2);
            if c.ty == 0 {
                run::<f64>(c, lx)
            } else {
                run::<f32>(c, lx)
            }
        },
    );
    let mut cases: Vec<Case> = Vec::new();
    for r in 1..=8usize {
        for &o in &[2usize, 3, 5, 8, 16, 64] {
            for fam in 0..6u64 {
                for (li, l) in layouts.iter().enumerate() {
                    if !thorough && (li + r + o + fam as usize) % 4 != 0 {
                        continue;
                    }
                    cases.push(Case { r, o, code: fam, structured: true, off: ((li + r) % 2) as u8, ty: ((li + fam as usize) % 2) as u8, layout: l.clone() });
                }
            }
        }
    }
    rep.run_sub(
        "structured-large-matrices",
        &format!("1..=8 variables x {{2,3,5,8,16,64}} observations x 6 deterministic families (ramps, negated ramps, quadratic residues, heavy outlier, non-representable decimals, powers of two; rows cycle through the families) x {} of the 40 layouts x offsets x f64/f32", if thorough { "all" } else { "every 4th" }),
        cases.into_iter(),
        |c, lx| {
            lx.nontrivial(c.r >= 2);
            if c.ty == 0 {
                run::<f64>(c, lx)
            } else {
                run::<f32>(c, lx)
            }
        },
    );
    // observation-count sweep (blocked / streaming implementations) and mixed scales
    let omax = rep.cfg.pick(300, 1100);
    let mut cases: Vec<Case> = Vec::new();
    for o in nsmc::patterns::sizes(40, omax).into_iter().filter(|&o| o >= 2) {
        for r in [2usize, 3] {
            for fam in [6u64, 7] {
                let li = (o + r + fam as usize) % layouts.len();
                cases.push(Case { r, o, code: fam, structured: true, off: 0, ty: ((o + r) % 2) as u8, layout: layouts[li].clone() });
            }
        }
    }
    for r in [2usize, 3] {
        for o in [3usize, 5, 8, 16] {
            for fam in [0u64, 1, 3, 4, 8] {
                for off in [0u8, 2, 3] {
                    if fam != 8 && off == 0 {
                        continue;
                    }
                    for ty in 0..2u8 {
                        cases.push(Case { r, o, code: fam, structured: true, off, ty, layout: layouts[(o + r + fam as usize + off as usize) % layouts.len()].clone() });
                    }
                }
            }
        }
    }
    rep.run_sub(
        "observation-count-sweep",
        &format!("2 and 3 variables x every observation count 2..=40 and block threshold neighbourhoods up to {} x {{mixed scales: a variable near 1e10 next to one with spread 1e-6; small values with a bump every 16th observation}} x layouts rotating x f64/f32; plus 2-3 variables x 3..16 observations at global scales 1e80 / 1e-85 (f32: 1e10 / 1e-12) and rows that are correlated to within 1e-11 of 1", omax),
        cases.into_iter(),
        |c, lx| {
            lx.nontrivial(true);
            if c.ty == 0 {
                run::<f64>(c, lx)
            } else {
                run::<f32>(c, lx)
            }
        },
    );
    rep.finish();
}
