//! C13 — edges are strictly sorted; bin lookup is left-closed, right-open.
use ndarray::prelude::*;
use ndarray_stats::histogram::{Bins, Edges, Grid};
use noisy_float::types::{n64, N64};
use nsmc::patterns::sequences;
use nsmc::*;
use std::fmt::Debug;

#[derive(Debug, Clone)]
struct EdgeCase {
    digits: Vec<u8>,
}

/// linear-scan reference: bin i iff e_i <= v < e_{i+1}
fn ref_indices<T: PartialOrd>(e: &[T], v: &T) -> Option<(usize, usize)> {
    if e.len() < 2 {
        return None;
    }
    for i in 0..e.len() - 1 {
        if e[i] <= *v && *v < e[i + 1] {
            return Some((i, i + 1));
        }
    }
    None
}

/// `key` maps an element to the harness's own ordered image of it: the identity for i32 / N64, the
/// wrapped integer for the crate's `NotNone<i32>` (whose hand-written `Ord` is part of what is checked,
/// so the reference must not sort or compare with it).
fn check_edges<T: Ord + Clone + Debug, K: Ord + Clone + Debug>(tag: &str, input: Vec<T>, probes: &[T], key: &dyn Fn(&T) -> K, lx: &mut Local) -> u64 {
    let mut want: Vec<K> = input.iter().map(key).collect();
    want.sort();
    want.dedup();
    let keys = |v: &[T]| -> Vec<K> { v.iter().map(key).collect() };
    let mut obs: Vec<String> = Vec::new();
    for via in 0..5u8 {
        let via_array = via > 0;
        // From<Array1>: a fresh standard-layout array, and owned arrays that were narrowed, stepped
        // or reversed in place (their backing buffer holds more / differently ordered elements)
        let edges: Edges<T> = match via {
            0 => Edges::from(input.clone()),
            1 => Edges::from(Array1::from(input.clone())),
            2 => {
                let mut buf = vec![probes[0].clone(), probes[probes.len() - 1].clone()];
                buf.extend(input.iter().cloned());
                buf.push(probes[1 % probes.len()].clone());
                Edges::from(Array1::from(buf).slice_move(ndarray::s![2..2 + input.len()]))
            }
            3 => {
                let mut buf = Vec::new();
                for x in &input {
                    buf.push(x.clone());
                    buf.push(probes[0].clone());
                }
                Edges::from(Array1::from(buf).slice_move(ndarray::s![..;2]))
            }
            _ => {
                let mut rev = input.clone();
                rev.reverse();
                Edges::from(Array1::from(rev).slice_move(ndarray::s![..;-1]))
            }
        };
        let got: Vec<K> = edges.iter().map(key).collect();
        lx.check(got == want, "C13/edges-not-sorted-distinct", || format!("{}: Edges::from({:?}) (construction variant {}: 0 Vec, 1 fresh Array1, 2 narrowed, 3 stepped, 4 reversed owned Array1; via_array={}) holds {:?}, expected {:?}", tag, input, via, via_array, got, want));
        lx.check(edges.len() == want.len() && edges.is_empty() == want.is_empty(), "C13/edges-len", || format!("{}: Edges::from({:?}).len() = {}, expected {}", tag, input, edges.len(), want.len()));
        lx.check(keys(&edges.as_array_view().to_vec()) == want, "C13/edges-array-view", || format!("{}: as_array_view of {:?}", tag, input));
        for i in 0..edges.len().min(want.len()) {
            lx.check(key(&edges[i]) == want[i], "C13/edges-index", || format!("{}: edges[{}] of {:?}", tag, i, input));
        }
        let bins = Bins::new(edges.clone());
        let nb = want.len().saturating_sub(1);
        lx.check(bins.len() == nb && bins.is_empty() == (nb == 0), "C13/bins-len", || format!("{}: Bins over {:?}: len() = {}, expected {}", tag, want, bins.len(), nb));
        for v in probes {
            let r = ref_indices(&want, &key(v));
            let g = guarded(|| edges.indices_of(v));
            match &g {
                Err(m) => lx.fail("C13/lookup-panic", || format!("{}: Edges {:?} indices_of({:?}) panicked: {}", tag, want, v, m)),
                Ok(g) => {
                    lx.check(*g == r, "C13/indices-of", || format!("{}: Edges {:?}: indices_of({:?}) = {:?}, expected {:?}", tag, want, v, g, r));
                }
            }
            let io = guarded(|| bins.index_of(v)).unwrap_or(None);
            lx.check(io == r.map(|t| t.0), "C13/bins-index-of", || format!("{}: Bins {:?}: index_of({:?}) = {:?}, expected {:?}", tag, want, v, io, r.map(|t| t.0)));
            let ro = guarded(|| bins.range_of(v)).unwrap_or(None).map(|rg| key(&rg.start)..key(&rg.end));
            let want_range = r.map(|(a, b)| want[a].clone()..want[b].clone());
            lx.check(ro == want_range, "C13/bins-range-of", || format!("{}: Bins {:?}: range_of({:?}) = {:?}, expected {:?}", tag, want, v, ro, want_range));
            if let (Some(i), Some(rg)) = (io, ro.clone()) {
                if i < nb {
                    let bi = bins.index(i);
                    lx.check((key(&bi.start)..key(&bi.end)) == rg, "C13/bins-index-vs-range-of", || format!("{}: Bins {:?}: index(index_of({:?})) = {:?} but range_of = {:?}", tag, want, v, bi, rg));
                }
            }
            obs.push(format!("{:?}", g.ok()));
        }
        for i in 0..nb {
            let bi = bins.index(i);
            lx.check((key(&bi.start)..key(&bi.end)) == (want[i].clone()..want[i + 1].clone()), "C13/bins-index", || format!("{}: Bins {:?}: index({}) = {:?}", tag, want, i, bi));
        }
    }
    hash_of(&(format!("{:?}", want), obs))
}

/// the crate's own ordered wrapper (what a non-missing `Option<i32>` is handed out as)
type NotNoneI32 = <Option<i32> as ndarray_stats::MaybeNan>::NotNan;
fn nn(v: i32) -> NotNoneI32 {
    use ndarray_stats::MaybeNan;
    Some(v).try_as_not_nan().unwrap().clone()
}

const GRID_SETS: [&[i32]; 5] = [&[], &[0], &[0, 4], &[0, 4, 8], &[8, 0, 4, 4]];

#[derive(Debug, Clone)]
struct GridCase {
    axes: Vec<u8>,
}

fn main() {
    let mut rep = Report::new("C13");
    rep.rule = "case = edge collection (sequence over 6 values, unsorted, with duplicates) probed at every value class, or a grid (tuple of edge sets) probed at every point tuple / index tuple; non-trivial = at least 2 distinct edges".into();
    rep.assume("Edges/Bins/Grid are generic over Ord and only compare and clone: all sequences over 6 values of length <= bound realise every weak-order pattern of that length");
    let lmax = rep.cfg.pick(6, 7);
    let cases = (0..=lmax).flat_map(|l| sequences(l, 6)).map(|d| EdgeCase { digits: d });
    rep.run_sub(
        "edges-and-bins",
        &format!("every sequence of length 0..={} over {{0,2,4,6,8,10}} via From<Vec> and From<Array1>, probes -1..=11 (odd = strictly between, even = on an edge), element types i32, N64 and (length <= 5) NotNone<i32>, the crate's own ordered wrapper, judged through the wrapped integers", lmax),
        cases,
        |c, lx| {
            let mut dd = c.digits.clone();
            dd.sort();
            dd.dedup();
            lx.nontrivial(dd.len() >= 2);
            lx.single(|lx| {
                let vi: Vec<i32> = c.digits.iter().map(|&d| d as i32 * 2).collect();
                let pi: Vec<i32> = (-1..=11).collect();
                let h1 = check_edges("i32", vi.clone(), &pi, &|x: &i32| *x, lx);
                if c.digits.len() <= 5 {
                    let vn: Vec<NotNoneI32> = vi.iter().map(|&v| nn(v)).collect();
                    let pn: Vec<NotNoneI32> = pi.iter().map(|&v| nn(v)).collect();
                    check_edges("NotNone<i32>", vn, &pn, &|x: &NotNoneI32| **x, lx);
                }
                let vf: Vec<N64> = c.digits.iter().map(|&d| n64(d as f64 * 0.2 - 0.3)).collect();
                // probes: every edge value, midpoints, below, above
                let mut pf: Vec<N64> = Vec::new();
                for k in -1..=11 {
                    if k % 2 == 0 {
                        pf.push(n64((k / 2) as f64 * 0.2 - 0.3));
                    } else {
                        pf.push(n64(((k - 1) / 2) as f64 * 0.2 - 0.3 + 0.1));
                    }
                }
                let h2 = check_edges("N64", vf, &pf, &|x: &N64| *x, lx);
                hash_of(&(h1, h2))
            });
        },
    );

    // many edges: hand-written searches tend to be right for 2^k and 2^k+1 edges only
    let emax = rep.cfg.pick(70, 300);
    rep.run_sub(
        "many-edges",
        &format!("strictly increasing edge lists of every size 2..={} (given in increasing, decreasing and interleaved order) x probes below, on and between all edges and above", emax),
        (2..=emax).flat_map(|m| (0..3u8).map(move |order| (m, order))),
        |c, lx| {
            let (m, order) = *c;
            lx.nontrivial(true);
            lx.single(|lx| {
                let sorted: Vec<i32> = (0..m as i32).map(|i| i * 2).collect();
                let input: Vec<i32> = match order {
                    0 => sorted.clone(),
                    1 => sorted.iter().rev().cloned().collect(),
                    _ => (0..m).map(|i| sorted[(i * 7 + 3) % m]).chain(sorted.iter().cloned()).collect(),
                };
                let probes: Vec<i32> = (-1..=2 * m as i32).collect();
                check_edges("i32-many", input, &probes, &|x: &i32| *x, lx)
            });
        },
    );
    // grids made by GridBuilder: the same accessor agreement (shape vs projections vs index vs index_of)
    rep.run_sub(
        "grid-builder-accessors",
        "GridBuilder<Sqrt | Rice | Sturges | FreedmanDiaconis | Auto> on 1..=3 columns of integer, ordinary float and coarse float data (1e16 + {0,2,4}: equispaced edges collide and are de-duplicated): Grid::shape() equals the projections' lengths, every in-shape index tuple is answered by Grid::index, every observation is found by Grid::index_of in a cell that contains it",
        (1..=3usize).flat_map(|cols| (0..5u8).flat_map(move |strat| (0..3u8).flat_map(move |kind| [4usize, 9, 16, 30].iter().map(move |&rows| (cols, strat, kind, rows)).collect::<Vec<_>>()))),
        |c, lx| {
            use ndarray_stats::histogram::strategies::{Auto, FreedmanDiaconis, Rice, Sqrt, Sturges};
            use ndarray_stats::histogram::GridBuilder;
            let (cols, strat, kind, rows) = *c;
            lx.nontrivial(true);
            lx.single(|lx| {
                let vals: Vec<N64> = (0..rows * cols)
                    .map(|k| {
                        let (i, j) = (k / cols, k % cols);
                        let x = ((i * (j + 2) * 7 + j) % (11 + 6 * j)) as f64;
                        n64(match kind {
                            0 => x + (j * 100) as f64,
                            1 => x * 0.1 + j as f64 * 1000.3,
                            _ => 1e16 + 2.0 * ((x as usize) % 3) as f64 + j as f64 * 1e17,
                        })
                    })
                    .collect();
                let m = ndarray::Array2::from_shape_vec((rows, cols), vals.clone()).unwrap();
                macro_rules! go {
                    ($ty:ident) => {
                        guarded(|| GridBuilder::<$ty<N64>>::from_array(&m).map(|gb| gb.build()))
                    };
                }
                let r = match strat {
                    0 => go!(Sqrt),
                    1 => go!(Rice),
                    2 => go!(Sturges),
                    3 => go!(FreedmanDiaconis),
                    _ => go!(Auto),
                };
                let grid = match r {
                    Ok(Ok(g)) => g,
                    Ok(Err(_)) => return 1,
                    Err(msg) => {
                        lx.fail("C13/grid-builder-panic", || format!("GridBuilder (strategy {}) panicked: {}; {:?}", strat, msg, c));
                        return 0;
                    }
                };
                let shape = grid.shape();
                let plens: Vec<usize> = grid.projections().iter().map(|b| b.len()).collect();
                lx.check(shape == plens && grid.ndim() == cols, "C13/grid-shape", || format!("GridBuilder (strategy {}) grid: shape() = {:?} but the projections have {:?} bins; {:?}", strat, shape, plens, c));
                if shape.iter().all(|&s| s >= 1) && shape == plens {
                    for corner in 0..(1usize << cols) {
                        let ix: Vec<usize> = (0..cols).map(|k| if corner >> k & 1 == 1 { shape[k] - 1 } else { 0 }).collect();
                        let r = guarded(|| grid.index(&ix));
                        lx.check(r.is_ok(), "C13/grid-index", || format!("GridBuilder (strategy {}) grid of shape {:?}: index({:?}) panicked; {:?}", strat, shape, ix, c));
                    }
                }
                for row in m.rows() {
                    if let Ok(Some(ix)) = guarded(|| grid.index_of(&row)) {
                        if ix.len() == plens.len() && ix.iter().zip(&plens).all(|(i, s)| i < s) {
                            let cell = grid.index(&ix);
                            lx.check(cell.iter().zip(row.iter()).all(|(r, v)| r.start <= *v && *v < r.end), "C13/grid-cell-does-not-contain-point", || format!("GridBuilder grid: index(index_of({:?})) = {:?}", row, cell));
                        } else {
                            lx.fail("C13/grid-index-of", || format!("GridBuilder grid with projections of {:?} bins: index_of({:?}) = {:?}", plens, row, ix));
                        }
                    }
                }
                hash_of(&shape)
            });
        },
    );
    let gcases = (0..=3usize).flat_map(|d| sequences(d, GRID_SETS.len())).map(|a| GridCase { axes: a });
    rep.run_sub(
        "grid",
        "all grids of 0..=3 axes over edge sets {[], [0], [0,4], [0,4,8], [8,0,4,4]} x every point tuple over probes {-1,0,2,4,6,8,9} x every in-range index tuple",
        gcases,
        |c, lx| {
            let d = c.axes.len();
            let sets: Vec<Vec<i32>> = c
                .axes
                .iter()
                .map(|&a| {
                    let mut v = GRID_SETS[a as usize].to_vec();
                    v.sort();
                    v.dedup();
                    v
                })
                .collect();
            lx.nontrivial(sets.iter().all(|s| s.len() >= 2));
            lx.single(|lx| {
                // the projections arrive in a Vec that was grown by pushes (spare capacity), as a caller
                // assembling a grid axis by axis would have it
                let mut projections = Vec::with_capacity(c.axes.len() + 3);
                for &a in &c.axes {
                    projections.push(Bins::new(Edges::from(GRID_SETS[a as usize].to_vec())));
                }
                let grid = Grid::from(projections);
                let shape: Vec<usize> = sets.iter().map(|s| s.len().saturating_sub(1)).collect();
                lx.check(grid.shape() == shape, "C13/grid-shape", || format!("grid over {:?}: shape() = {:?}, expected {:?}", sets, grid.shape(), shape));
                lx.check(grid.ndim() == d && grid.projections().len() == d, "C13/grid-ndim", || format!("grid over {:?}: ndim() = {}", sets, grid.ndim()));
                for (k, p) in grid.projections().iter().enumerate() {
                    lx.check(p.len() == shape[k], "C13/grid-projection", || format!("projection {} of grid over {:?} has {} bins", k, sets, p.len()));
                }
                let probes = [-1, 0, 2, 4, 6, 8, 9];
                let mut obs = Vec::new();
                for x0 in 0..probes.len().pow(d as u32) * 3 {
                    let mut x = x0 / 3;
                    let mut pt = vec![0i32; d];
                    for k in (0..d).rev() {
                        pt[k] = probes[x % probes.len()];
                        x /= probes.len();
                    }
                    let want: Option<Vec<usize>> = pt.iter().zip(&sets).map(|(v, e)| ref_indices(e, v).map(|t| t.0)).collect();
                    // the point is presented as an owned array and as reversed / stepped views
                    let variant = x0 % 3;
                    let host = nsmc::layouts::Host1::new(&pt, [1isize, -1, 2][variant], 1, 77);
                    let got = guarded(|| if variant == 0 { grid.index_of(&Array1::from(pt.clone())) } else { grid.index_of(&host.view()) });
                    match got {
                        Err(m) => lx.fail("C13/grid-index-of-panic", || format!("grid over {:?}: index_of({:?}) panicked: {}", sets, pt, m)),
                        Ok(got) => {
                            lx.check(got == want, "C13/grid-index-of", || format!("grid over {:?}: index_of({:?}) = {:?}, expected {:?}", sets, pt, got, want));
                            if let Some(ix) = &got {
                                if ix.len() == shape.len() && ix.iter().zip(&shape).all(|(i, s)| i < s) {
                                    let cell = grid.index(ix);
                                    lx.check(cell.iter().zip(&pt).all(|(r, v)| r.start <= *v && *v < r.end), "C13/grid-cell-does-not-contain-point", || format!("grid over {:?}: index(index_of({:?})) = {:?}", sets, pt, cell));
                                }
                            }
                            obs.push(got);
                        }
                    }
                }
                let tot: usize = shape.iter().product();
                for mut x in 0..tot {
                    let mut ix = vec![0usize; d];
                    for k in (0..d).rev() {
                        ix[k] = x % shape[k];
                        x /= shape[k];
                    }
                    let want: Vec<std::ops::Range<i32>> = ix.iter().zip(&sets).map(|(&i, e)| e[i]..e[i + 1]).collect();
                    let got = grid.index(&ix);
                    lx.check(got == want, "C13/grid-index", || format!("grid over {:?}: index({:?}) = {:?}, expected {:?}", sets, ix, got, want));
                }
                hash_of(&obs)
            });
        },
    );
    rep.finish();
}
