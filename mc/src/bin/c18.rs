//! C18 — bulk routines equal their single-item counterparts item by item.
use ndarray::prelude::*;
use ndarray_stats::{Quantile1dExt, QuantileExt, Sort1dExt, SummaryStatisticsExt};
use noisy_float::types::{n64, N64};
use nsmc::fl::Fl;
use nsmc::layouts::{all_layouts, lanes_flat, Host, Host1, Layout};
use nsmc::patterns::{sequences, weak_orders};
use nsmc::qelem::QElem;
use nsmc::qoracle::Strat;
use nsmc::*;

/// q pool for lane length n: pairs sharing a lower/higher index pair, a value exactly on an
/// index, values straddling it, and the end points
fn pool(n: usize) -> Vec<f64> {
    let d = (n.max(2) - 1) as f64;
    vec![0.0, 0.25 / d, 0.75 / d, 1.0 / d, 0.5, 1.0]
}

#[derive(Debug, Clone)]
struct QCase {
    pat: Vec<u8>,
    strat: Strat,
    ty: u8,
    /// request lists of this length (0..=4) or 32
    list_len: usize,
}

fn single_sets<T: QElem>(vals: &[T], qs: &[f64], s: Strat, mode: &PivotMode, lx: &mut Local) -> Vec<Vec<Option<i128>>> {
    qs.iter()
        .map(|&q| {
            let mut seen: Vec<Option<i128>> = Vec::new();
            lx.explore(mode, |_lx| {
                let mut a = Array1::from(vals.to_vec());
                let r = guarded(|| nsmc::with_strategy!(s, i, a.quantile_mut(n64(q), i)));
                let k = match r {
                    Ok(Ok(v)) => Some(v.key()),
                    _ => None,
                };
                if !seen.contains(&k) {
                    seen.push(k);
                }
                hash_of(&k)
            });
            seen
        })
        .collect()
}

fn run_q<T: QElem>(c: &QCase, lx: &mut Local) {
    let n = c.pat.len();
    let k = c.pat.iter().map(|&r| r as usize + 1).max().unwrap();
    let table = T::table(0, k);
    let vals: Vec<T> = c.pat.iter().map(|&r| table[r as usize].clone()).collect();
    let p = pool(n);
    let mode = if n <= 4 { PivotMode::All } else { PivotMode::Bounded { policy: Policy::Middle, bound: if n == 5 { 2 } else { 1 } } };
    let singles = single_sets(&vals, &p, c.strat, &mode, lx);
    for (qi, s) in singles.iter().enumerate() {
        lx.check(s.len() == 1 && s[0].is_some(), "C18/single-call-unstable", || format!("[{}] quantile_mut({:?},{:?}) on {:?} gave {:?} over pivot sequences", T::NAME, p[qi], c.strat, vals, s));
    }
    let lists: Vec<Vec<u8>> = if c.list_len == 32 { vec![(0..32).map(|i| ((i * 5 + i / 6) % 6) as u8).collect()] } else { sequences(c.list_len, 6).collect() };
    for l in lists {
        let qs: Vec<f64> = l.iter().map(|&i| p[i as usize]).collect();
        lx.explore(&mode, |lx| {
            let mut a = Array1::from(vals.clone());
            let qa = Array1::from(qs.iter().map(|&q| n64(q)).collect::<Vec<N64>>());
            let r = guarded(|| nsmc::with_strategy!(c.strat, i, a.quantiles_mut(&qa, i)));
            match r {
                Ok(Ok(res)) => {
                    lx.check(res.len() == qs.len(), "C18/bulk-length", || format!("[{}] quantiles_mut with {} requests returned {} values", T::NAME, qs.len(), res.len()));
                    for (j, &pi) in l.iter().enumerate() {
                        if j < res.len() {
                            let got = Some(res[j].key());
                            lx.check(singles[pi as usize].contains(&got), "C18/bulk-vs-single-quantile", || format!("[{}] quantiles_mut({:?},{:?}) on {:?}: entry #{} (q={:?}) = {:?} but quantile_mut gives key {:?}", T::NAME, qs, c.strat, vals, j, qs[j], res[j], singles[pi as usize]));
                        }
                    }
                    hash_of(&res.iter().map(|v| v.key()).collect::<Vec<_>>())
                }
                other => {
                    lx.fail("C18/bulk-failed", || format!("[{}] quantiles_mut({:?},{:?}) on {:?}: {:?}", T::NAME, qs, c.strat, vals, other.map(|r| r.map(|_| ()))));
                    0
                }
            }
        });
    }
}

#[derive(Debug, Clone)]
struct NQCase {
    shape: Vec<usize>,
    axis: usize,
    layout: Layout,
    family: usize,
    strat: Strat,
}

fn run_nq(c: &NQCase, lx: &mut Local) {
    let lanes = lanes_flat(&c.shape, c.axis);
    let ll = c.shape[c.axis];
    let m = lanes.len();
    let n: usize = c.shape.iter().product();
    let wos = weak_orders(ll);
    let table = <i64 as QElem>::table(0, 8);
    let mut data = vec![0i64; n];
    for (j, lane) in lanes.iter().enumerate() {
        let pat = &wos[(c.family * m + j) % wos.len()];
        for (k, &fi) in lane.iter().enumerate() {
            data[fi] = table[pat[k] as usize];
        }
    }
    let p = pool(ll);
    let l: Vec<usize> = vec![5, 1, 2, 3, 1, 0, 4, 2];
    let qs: Vec<f64> = l.iter().map(|&i| p[i]).collect();
    let ax = Axis(c.axis);
    let mode = PivotMode::Bounded { policy: Policy::ALL[c.family % 3], bound: 1 };
    // single results per pool entry (middle pivots; pivot independence is C01's job and is re-checked in the 1-D part)
    let singles: Vec<Option<Vec<i64>>> = p
        .iter()
        .map(|&q| {
            let mut h = Host::new(&c.shape, &data, &c.layout, -99);
            let r = guarded(|| {
                let mut v = h.view_mut();
                nsmc::with_strategy!(c.strat, i, v.quantile_axis_mut(ax, n64(q), i))
            });
            match r {
                Ok(Ok(a)) => Some(a.iter().cloned().collect()),
                _ => None,
            }
        })
        .collect();
    lx.explore(&mode, |lx| {
        let mut h = Host::new(&c.shape, &data, &c.layout, -99);
        let qa = Array1::from(qs.iter().map(|&q| n64(q)).collect::<Vec<N64>>());
        let r = guarded(|| {
            let mut v = h.view_mut();
            nsmc::with_strategy!(c.strat, i, v.quantiles_axis_mut(ax, &qa, i))
        });
        match r {
            Ok(Ok(res)) => {
                for (j, &pi) in l.iter().enumerate() {
                    if j >= res.len_of(ax) {
                        lx.fail("C18/bulk-shape", || format!("bulk result has {} slices for {} requests: {:?}", res.len_of(ax), l.len(), c));
                        break;
                    }
                    let slice: Vec<i64> = res.index_axis(ax, j).iter().cloned().collect();
                    lx.check(Some(&slice) == singles[pi].as_ref(), "C18/bulk-vs-single-quantile-axis", || format!("quantiles_axis_mut slice #{} (q={:?}) = {:?} but quantile_axis_mut gives {:?}: {:?}", j, qs[j], slice, singles[pi], c));
                }
                hash_of(&res.iter().cloned().collect::<Vec<_>>())
            }
            other => {
                lx.fail("C18/bulk-failed", || format!("quantiles_axis_mut failed: {:?} on {:?}", other.map(|r| r.map(|_| ())), c));
                0
            }
        }
    });
}

#[derive(Debug, Clone)]
struct SelCase {
    pat: Vec<u8>,
}

fn run_sel(c: &SelCase, lx: &mut Local) {
    let n = c.pat.len();
    let vals: Vec<i32> = c.pat.iter().map(|&r| r as i32 * 3 - 4).collect();
    // single selection: set of results per index over all pivot sequences
    let singles: Vec<Vec<Option<i32>>> = (0..n)
        .map(|i| {
            let mut seen = Vec::new();
            lx.explore(&PivotMode::All, |_lx| {
                let mut a = Array1::from(vals.clone());
                let r = guarded(|| a.get_from_sorted_mut(i)).ok();
                if !seen.contains(&r) {
                    seen.push(r);
                }
                hash_of(&r)
            });
            seen
        })
        .collect();
    // request lists: every non-empty subset (in decreasing order), and for n <= 4 every list of n and of
    // n + 1 positions with repeats allowed, in every order (a list as long as the array that does not
    // name every position; a list longer than the array)
    let mut lists: Vec<Vec<usize>> = (1u32..(1 << n)).map(|mask| (0..n).filter(|i| mask >> i & 1 == 1).rev().collect()).collect();
    if n >= 2 && n <= 4 {
        for len in [n, n + 1] {
            lists.extend(nsmc::patterns::sequences(len, n).map(|s| s.into_iter().map(|d| d as usize).collect::<Vec<usize>>()));
        }
    }
    for idx in lists {
        lx.explore(&PivotMode::All, |lx| {
            let mut a = Array1::from(vals.clone());
            let r = guarded(|| a.get_many_from_sorted_mut(&Array1::from(idx.clone())));
            match r {
                Ok(m) => {
                    for &i in &idx {
                        match m.get(&i) {
                            Some(v) => {
                                lx.check(singles[i].contains(&Some(*v)), "C18/bulk-vs-single-selection", || format!("get_many_from_sorted_mut({:?}) on {:?}: entry {} = {} but get_from_sorted_mut({}) gives {:?}", idx, vals, i, v, i, singles[i]));
                            }
                            None => lx.fail("C18/bulk-selection-missing-entry", || format!("get_many_from_sorted_mut({:?}) on {:?} has no entry for {}", idx, vals, i)),
                        }
                    }
                    hash_of(&m.iter().map(|(k, v)| (*k, *v)).collect::<Vec<_>>())
                }
                Err(msg) => {
                    lx.fail("C18/bulk-failed", || format!("get_many_from_sorted_mut({:?}) on {:?} panicked: {}", idx, vals, msg));
                    0
                }
            }
        });
    }
}

#[derive(Debug, Clone)]
struct MCase {
    digits: Vec<u8>,
    off: u8,
    ty: u8,
}

const DATA: [f64; 7] = [-2.0, -1.0, 0.0, 0.1, 0.5, 1.0, 3.0];

fn run_m<T: Fl>(c: &MCase, lx: &mut Local) {
    let off = [0.0, 1e3, 1e6, 1e9, 1e12, 1e15][c.off as usize];
    let mut xs: Vec<T> = c.digits.iter().map(|&d| T::of(DATA[d as usize] + off)).collect();
    // every 4th data set (by digit sum) gets one non-finite element: the bulk and the single form must still agree
    let dsum: usize = c.digits.iter().map(|&d| d as usize).sum();
    if dsum % 4 == 3 && !xs.is_empty() {
        let k = dsum % xs.len();
        xs[k] = T::of([f64::NAN, f64::INFINITY, f64::NEG_INFINITY][(dsum / 4) % 3]);
    }
    for st in [1isize, -2] {
        lx.single(|lx| {
            let h = Host1::new(&xs, st, 1, T::of(777.0));
            let v = h.view();
            let mut obs = Vec::new();
            for p in 0..=10u16 {
                let bulk = guarded(|| v.central_moments(p));
                match bulk {
                    Ok(Ok(ms)) => {
                        lx.check(ms.len() == p as usize + 1, "C18/central-moments-length", || format!("[{}] central_moments({}) returned {} entries", T::NAME, p, ms.len()));
                        for k in 0..=p.min(ms.len() as u16 - 1) {
                            match guarded(|| v.central_moment(k)) {
                                Ok(Ok(s)) => {
                                    let same = s.bits_() == ms[k as usize].bits_() || (s.is_nan() && ms[k as usize].is_nan());
                                    lx.check(same, "C18/central-moments-vs-single", || format!("[{}] central_moments({})[{}] = {:?} but central_moment({}) = {:?} on {:?} (not bit-identical)", T::NAME, p, k, ms[k as usize], k, s, xs));
                                }
                                other => lx.fail("C18/central-moment-failed", || format!("central_moment({}) on {:?}: {:?}", k, xs, other.map(|r| r.map(|x| x.to_f64_())))),
                            }
                        }
                        obs.push(ms.iter().map(|m| m.bits_()).collect::<Vec<_>>());
                    }
                    other => lx.fail("C18/central-moments-failed", || format!("central_moments({}) on {:?}: {:?}", p, xs, other.map(|r| r.map(|v| v.len())))),
                }
            }
            hash_of(&obs)
        });
    }
    // the same on 2-D inputs that are not contiguous in memory (every second column of a wider array, and
    // its transpose): the two forms must traverse the elements in the same order
    if xs.len() >= 4 && xs.len() % 2 == 0 {
        lx.single(|lx| {
            let rows = 2;
            let cols = xs.len() / 2;
            let mut wide = ndarray::Array2::from_elem((rows, 2 * cols), T::of(777.0));
            for i in 0..rows {
                for j in 0..cols {
                    wide[[i, 2 * j]] = xs[i * cols + j];
                }
            }
            let mut obs = Vec::new();
            for tr in [false, true] {
                let v0 = wide.slice(ndarray::s![.., ..;2]);
                let v = if tr { v0.t() } else { v0.view() };
                for p in [2u16, 3, 4, 7] {
                    if let Ok(Ok(ms)) = guarded(|| v.central_moments(p)) {
                        for k in 0..=p.min(ms.len() as u16 - 1) {
                            if let Ok(Ok(s1)) = guarded(|| v.central_moment(k)) {
                                let same = s1.bits_() == ms[k as usize].bits_() || (s1.is_nan() && ms[k as usize].is_nan());
                                lx.check(same, "C18/central-moments-vs-single", || format!("[{}] on a strided 2-D view (transposed: {}): central_moments({})[{}] = {:?} but central_moment({}) = {:?} on {:?} (not bit-identical)", T::NAME, tr, p, k, ms[k as usize], k, s1, xs));
                            }
                        }
                        obs.push(ms.iter().map(|m| m.bits_()).collect::<Vec<_>>());
                    }
                }
            }
            hash_of(&obs)
        });
    }
}

#[derive(Debug, Clone)]
struct ACase {
    shape: Vec<usize>,
    axis: usize,
    layout: Layout,
    fill: usize,
}

fn run_axis(c: &ACase, lx: &mut Local) {
    let n: usize = c.shape.iter().product();
    let ll = c.shape[c.axis];
    let lanes = lanes_flat(&c.shape, c.axis);
    // integers: exact equality
    let di: Vec<i64> = (0..n).map(|i| ((i * 7 + c.fill * 3) % 11) as i64 - 4).collect();
    let wi: Vec<i64> = (0..ll).map(|k| ((k + c.fill) % 4) as i64 + if k == 0 { 1 } else { 0 }).collect();
    // floats: within the summation bound of each other
    let mut df: Vec<f64> = (0..n).map(|i| DATA[(i * 3 + c.fill) % 7] + if c.fill % 2 == 1 { 1e6 } else { 0.0 }).collect();
    let mut wf: Vec<f64> = (0..ll).map(|k| [0.0, 0.25, 1.0, 3.0][(k + c.fill) % 4] + if k == ll - 1 { 0.5 } else { 0.0 }).collect();
    // fills 7, 8: all weights equal but not 1 (0.5, 2): with ddof != 0 that is NOT the unweighted variance
    if c.fill == 7 || c.fill == 8 {
        wf = vec![if c.fill == 7 { 0.5 } else { 2.0 }; ll];
    }
    // special fills: a negative weight; a non-finite observation sitting on an exactly-zero weight
    let special = c.fill >= 4 && c.fill <= 6;
    if c.fill == 4 {
        wf[0] = -0.75;
    }
    if c.fill == 5 || c.fill == 6 {
        wf[0] = 0.0;
        for lane in &lanes {
            df[lane[0]] = if c.fill == 5 { f64::INFINITY } else { f64::NAN };
        }
    }
    lx.single(|lx| {
        let hi = Host::new(&c.shape, &di, &c.layout, -99);
        let hwi = Host1::new(&wi, -1, 1, 55);
        let (vi, vwi) = (hi.view(), hwi.view());
        let mut obs = Vec::new();
        match (guarded(|| vi.weighted_sum_axis(Axis(c.axis), &vwi)), guarded(|| vi.weighted_mean_axis(Axis(c.axis), &vwi))) {
            (Ok(Ok(rs)), Ok(Ok(rm))) => {
                let (fs, fm): (Vec<i64>, Vec<i64>) = (rs.iter().cloned().collect(), rm.iter().cloned().collect());
                for (j, lane) in lanes.iter().enumerate() {
                    if j >= fs.len() || j >= fm.len() {
                        lx.fail("C18/axis-shape", || format!("axis result too short: {:?}", c));
                        break;
                    }
                    let la = Array1::from(lane.iter().map(|&i| di[i]).collect::<Vec<_>>());
                    let wa = Array1::from(wi.clone());
                    let (s1, m1) = (la.weighted_sum(&wa).unwrap(), la.weighted_mean(&wa).unwrap());
                    lx.check(s1 == fs[j], "C18/int-weighted-sum-axis-vs-lane", || format!("weighted_sum_axis lane {} = {} but weighted_sum of the lane {:?} with {:?} = {}: {:?}", j, fs[j], la, wi, s1, c));
                    lx.check(m1 == fm[j], "C18/int-weighted-mean-axis-vs-lane", || format!("weighted_mean_axis lane {} = {} but weighted_mean of the lane {:?} with {:?} = {}: {:?}", j, fm[j], la, wi, m1, c));
                    obs.push(fs[j] as u64);
                }
            }
            (a, b) => lx.fail("C18/axis-failed", || format!("integer axis forms failed: {:?} / {:?} on {:?}", a.map(|r| r.map(|_| ())), b.map(|r| r.map(|_| ())), c)),
        }
        let hf = Host::new(&c.shape, &df, &c.layout, 777.0);
        let hwf = Host1::new(&wf, 2, 1, 555.0);
        let (vf, vwf) = (hf.view(), hwf.view());
        let u = f64::EPSILON / 2.0;
        for ddof in [0.0, 1.0, 0.5] {
            let rv = guarded(|| vf.weighted_var_axis(Axis(c.axis), &vwf, ddof));
            let rsd = guarded(|| vf.weighted_std_axis(Axis(c.axis), &vwf, ddof));
            let rs = guarded(|| vf.weighted_sum_axis(Axis(c.axis), &vwf));
            let rm = guarded(|| vf.weighted_mean_axis(Axis(c.axis), &vwf));
            match (rv, rsd, rs, rm) {
                (Ok(Ok(rv)), Ok(Ok(rsd)), Ok(Ok(rs)), Ok(Ok(rm))) => {
                    let (fv, fsd, fs, fm): (Vec<f64>, Vec<f64>, Vec<f64>, Vec<f64>) = (rv.iter().cloned().collect(), rsd.iter().cloned().collect(), rs.iter().cloned().collect(), rm.iter().cloned().collect());
                    for (j, lane) in lanes.iter().enumerate() {
                        if j >= fv.len() {
                            break;
                        }
                        let lv: Vec<f64> = lane.iter().map(|&i| df[i]).collect();
                        let la = Array1::from(lv.clone());
                        let wa = Array1::from(wf.clone());
                        let abs_terms: f64 = lv.iter().zip(&wf).map(|(x, w)| (x * w).abs()).sum();
                        let wtot: f64 = wf.iter().sum();
                        let nn = ll as f64;
                        let bs = 8.0 * (nn + 4.0) * u * abs_terms;
                        let bm = 16.0 * (nn + 4.0) * u * abs_terms / wtot;
                        let s1 = la.weighted_sum(&wa).unwrap();
                        let m1 = la.weighted_mean(&wa).unwrap();
                        let v1 = la.weighted_var(&wa, ddof).unwrap();
                        let sd1 = la.weighted_std(&wa, ddof).unwrap();
                        // conditioning of the variance: sum w x^2 relative to W - ddof
                        let swx2: f64 = lv.iter().zip(&wf).map(|(x, w)| w * x * x).sum();
                        let bv = 32.0 * (nn + 4.0) * u * swx2 / (wtot - ddof).abs();
                        if special {
                            // compare as is: both must be NaN, or equal within the tolerance
                            let same = |a: f64, b: f64, tol: f64| (a.is_nan() && b.is_nan()) || a == b || (a - b).abs() <= tol;
                            lx.check(same(s1, fs[j], bs) && same(m1, fm[j], bm), "C18/weighted-sum-axis-vs-lane", || format!("special weights {:?} (fill {}): weighted_sum_axis / weighted_mean_axis lane {} = {:e} / {:e} but the lane routines give {:e} / {:e}: {:?}", wf, c.fill, j, fs[j], fm[j], s1, m1, c));
                            lx.check(same(v1, fv[j], bv.abs().max(1e-9)) && same(sd1, fsd[j], 1e-6), "C18/weighted-var-axis-vs-lane", || format!("special weights {:?} (fill {}): weighted_var_axis / weighted_std_axis(ddof {}) lane {} = {:e} / {:e} but the lane routines give {:e} / {:e}: {:?}", wf, c.fill, ddof, j, fv[j], fsd[j], v1, sd1, c));
                            continue;
                        }
                        // (equal results - e.g. both infinite when the total weight equals ddof - need no tolerance)
                        lx.within(if s1 == fs[j] { 0.0 } else { (s1 - fs[j]).abs() }, bs, "C18/weighted-sum-axis-vs-lane", || format!("weighted_sum_axis lane {} = {:e} but weighted_sum of the lane = {:e}: {:?}", j, fs[j], s1, c));
                        lx.within(if m1 == fm[j] { 0.0 } else { (m1 - fm[j]).abs() }, bm, "C18/weighted-mean-axis-vs-lane", || format!("weighted_mean_axis lane {} = {:e} but weighted_mean of the lane = {:e}: {:?}", j, fm[j], m1, c));
                        lx.within(if v1 == fv[j] { 0.0 } else { (v1 - fv[j]).abs() }, bv, "C18/weighted-var-axis-vs-lane", || format!("weighted_var_axis(ddof {}) lane {} = {:e} but weighted_var of the lane = {:e} (tolerance {:e}): {:?}", ddof, j, fv[j], v1, bv, c));
                        let bsd = if v1 > 0.0 { bv / v1.sqrt() + 4.0 * u * v1.sqrt() } else { bv.sqrt() };
                        lx.check(sd1 == fsd[j] || (sd1 - fsd[j]).abs() <= bsd || (sd1.is_nan() && fsd[j].is_nan()), "C18/weighted-std-axis-vs-lane", || format!("weighted_std_axis(ddof {}) lane {} = {:e} but weighted_std of the lane = {:e}: {:?}", ddof, j, fsd[j], sd1, c));
                        // "equals": the per-axis forms fold each lane exactly as the whole-array routine does, so the
                        // results are the same floating-point number (a NaN for a NaN), not merely close
                        let eqf = |a: f64, b: f64| a.to_bits() == b.to_bits() || (a.is_nan() && b.is_nan()) || a == b;
                        let bit_equal = eqf(s1, fs[j]) && eqf(m1, fm[j]) && eqf(v1, fv[j]) && eqf(sd1, fsd[j]);
                        lx.check(bit_equal, "C18/axis-form-not-identical-to-lane-routine", || format!("(sum, mean, var, std) per axis, lane {} = ({:e}, {:e}, {:e}, {:e}) but the whole-array routines on the lane give ({:e}, {:e}, {:e}, {:e}) (ddof {}): {:?}", j, fs[j], fm[j], fv[j], fsd[j], s1, m1, v1, sd1, ddof, c));
                        lx.count(if bit_equal { "float_axis_results_bit_equal_to_lane_routine" } else { "float_axis_results_not_bit_equal_to_lane_routine" }, 1);
                        obs.push(fv[j].to_bits());
                    }
                }
                _ => lx.fail("C18/axis-failed", || format!("float axis forms failed on {:?}", c)),
            }
        }
        hash_of(&obs)
    });
}

fn main() {
    let mut rep = Report::new("C18");
    rep.rule = "case = (weak-order pattern, strategy, element type, request-list length) with all request lists of that length over the q pool inside; (pattern) with all index subsets; (data array) with moment orders 0..10; (shape, axis, layout, fill) for axis forms; non-trivial = length >= 2".into();
    rep.assume("single-item results are collected as the set of values over all explored pivot sequences (must be a singleton); every bulk execution's entries must lie in the corresponding set, which is 'every bulk execution compared with every single execution'");
    rep.assume("axis forms vs lane routine: exact for integers; for floats within twice the summation bound (both are within the bound of the exact value), bit-equality is counted and reported");
    let nmax = rep.cfg.pick(5, 6);
    let thorough = rep.cfg.thorough();
    let mut cases: Vec<QCase> = Vec::new();
    for n in 1..=nmax {
        for pat in weak_orders(n) {
            for (si, &strat) in Strat::ALL.iter().enumerate() {
                let ty = ((si + pat.len() + pat[0] as usize) % 2) as u8;
                let lens: Vec<usize> = if n <= 4 || thorough { vec![0, 1, 2, 3, 4, 32] } else { vec![0, 1, 2, 3, 32] };
                for list_len in lens {
                    cases.push(QCase { pat: pat.clone(), strat, ty, list_len });
                }
            }
        }
    }
    rep.dispatch_chunk = 4;
    rep.run_sub(
        "bulk-vs-single-quantiles-1d",
        &format!("all weak-order patterns of length 1..={} x 5 strategies x i64 / N64 x every request list of length 0..4 over a 6-value q pool (pairs sharing an index pair, on an index, straddling it; 1555 lists; N=5 in the quick tier: lengths <= 3) plus one list of 32 requests; ALL pivot sequences for N<=4, <= 2 deviations from the middle policy for N=5 (<= 1 for N=6), on both the bulk and the single side", nmax),
        cases.into_iter(),
        |c, lx| {
            lx.nontrivial(c.pat.len() >= 2);
            if c.ty == 0 {
                run_q::<i64>(c, lx)
            } else {
                run_q::<N64>(c, lx)
            }
        },
    );
    rep.dispatch_chunk = 64;
    let mut ncases: Vec<NQCase> = Vec::new();
    for shape in [vec![2usize, 3], vec![3, 2, 2], vec![2, 2, 3]] {
        let d = shape.len();
        for axis in 0..d {
            let ll = shape[axis];
            let m: usize = shape.iter().product::<usize>() / ll;
            let fams = (weak_orders(ll).len() + m - 1) / m;
            for (li, l) in all_layouts(d, &[1, 2, -1, -2]).into_iter().enumerate() {
                for f in 0..fams {
                    ncases.push(NQCase { shape: shape.clone(), axis, layout: l.clone(), family: f, strat: Strat::ALL[(li + f) % 5] });
                }
            }
        }
    }
    rep.run_sub(
        "bulk-vs-single-quantiles-nd",
        "shapes (2,3), (3,2,2), (2,2,3) x every axis x all layouts x content families covering every weak-order pattern of the lane length x strategies rotating: every slice of quantiles_axis_mut (8 requests, unordered, repeats) vs quantile_axis_mut for that q; 3 pivot policies x <= 1 deviation",
        ncases.into_iter(),
        |c, lx| {
            lx.nontrivial(true);
            run_nq(c, lx)
        },
    );
    let nsel = rep.cfg.pick(6, 7);
    rep.dispatch_chunk = 4;
    rep.run_sub(
        "bulk-vs-single-selection",
        &format!("all weak-order patterns of length 1..={} x every non-empty subset of indexes (presented in decreasing order) x ALL pivot sequences on both sides", nsel),
        (1..=nsel).flat_map(weak_orders).map(|pat| SelCase { pat }),
        |c, lx| {
            lx.nontrivial(c.pat.len() >= 2);
            run_sel(c, lx)
        },
    );
    rep.dispatch_chunk = 64;
    let mmax = rep.cfg.pick(5, 6);
    let mcases = (1..=mmax).flat_map(|n| sequences(n, 7)).flat_map(|d| (0..6u8).flat_map(move |off| { let d = d.clone(); (0..2u8).map(move |ty| MCase { digits: d.clone(), off, ty }) }));
    rep.run_sub(
        "central-moments-bulk-vs-single",
        &format!("every array of length 1..={} over {:?} at offsets 0, 1e3, 1e6, 1e9, 1e12, 1e15, f64 and f32, strides {{1,-2}}: central_moments(p)[k] vs central_moment(k) bit for bit for every k <= p, p = 0..=10; every 4th data set contains one NaN / +inf / -inf element", mmax, DATA),
        mcases,
        |c, lx| {
            lx.nontrivial(c.digits.len() >= 2);
            if c.ty == 0 {
                run_m::<f64>(c, lx)
            } else {
                run_m::<f32>(c, lx)
            }
        },
    );
    // several long lanes: every slice of the bulk result against the single-q call; long lanes: bulk vs single selection
    let lls: Vec<usize> = if thorough { vec![9, 16, 17, 18, 32, 33, 34, 40, 64, 65, 66, 100, 129] } else { vec![16, 17, 18, 33, 34, 65, 129] };
    let mut lcases: Vec<(usize, usize, usize, usize, usize)> = Vec::new();
    for &ll in &lls {
        for nl in [2usize, 3] {
            for axis in 0..2usize {
                for nq in [4usize, 9, 18, 36, 70] {
                    if nq <= 2 * ll {
                        lcases.push((ll, nl, axis, nq, (ll + nl + axis + nq) % 24));
                    }
                }
            }
        }
    }
    rep.run_sub(
        "bulk-vs-single-several-long-lanes",
        &format!("2 and 3 lanes of length {:?} along either axis (24 layouts rotating) x request lists of 4..70 q values x 5 strategies: every slice of quantiles_axis_mut vs quantile_axis_mut for that q", lls),
        lcases.into_iter(),
        |c, lx| {
            let (ll, nl, axis, nq, li) = *c;
            lx.nontrivial(true);
            let shape: Vec<usize> = if axis == 1 { vec![nl, ll] } else { vec![ll, nl] };
            let lanes = lanes_flat(&shape, axis);
            let mut data = vec![0i64; nl * ll];
            for (j, lane) in lanes.iter().enumerate() {
                for (k, &fi) in lane.iter().enumerate() {
                    data[fi] = (((k * (7 + 2 * j) + 3 * j) % ll) as i64) * 10 + 1000 * j as i64;
                }
            }
            let lay = all_layouts(2, &[1, -1, 2])[li].clone();
            let grid = nsmc::patterns::q_grid_small(ll);
            let qs: Vec<f64> = (0..nq).map(|i| grid[(i * grid.len() / nq + (i % 3)) % grid.len()]).collect();
            let ax = Axis(axis);
            for &strat in &Strat::ALL {
                lx.single(|lx| {
                    let mut h = Host::new(&shape, &data, &lay, -99i64);
                    let qa = Array1::from(qs.iter().map(|&q| n64(q)).collect::<Vec<N64>>());
                    let bulk = guarded(|| {
                        let mut v = h.view_mut();
                        nsmc::with_strategy!(strat, i, v.quantiles_axis_mut(ax, &qa, i))
                    });
                    let bulk = match bulk {
                        Ok(Ok(b)) => b,
                        other => {
                            lx.fail("C18/bulk-failed", || format!("quantiles_axis_mut failed: {:?}; {:?} {:?}", other.map(|r| r.map(|_| ())), c, strat));
                            return 0;
                        }
                    };
                    for (j, &q) in qs.iter().enumerate() {
                        let mut h = Host::new(&shape, &data, &lay, -99i64);
                        let single = guarded(|| {
                            let mut v = h.view_mut();
                            nsmc::with_strategy!(strat, i, v.quantile_axis_mut(ax, n64(q), i))
                        });
                        match single {
                            Ok(Ok(s)) => {
                                if j < bulk.len_of(ax) {
                                    let slice: Vec<i64> = bulk.index_axis(ax, j).iter().cloned().collect();
                                    let sv: Vec<i64> = s.iter().cloned().collect();
                                    lx.check(slice == sv, "C18/bulk-vs-single-quantile-axis", || format!("{} requests, lanes of {} ({:?}, {:?}): bulk slice #{} (q={:?}) = {:?}, single call = {:?}", nq, ll, c, strat, j, q, slice, sv));
                                } else {
                                    lx.fail("C18/bulk-shape", || format!("bulk result has {} slices for {} requests", bulk.len_of(ax), nq));
                                }
                            }
                            _ => lx.fail("C18/single-failed", || format!("quantile_axis_mut failed for q={:?}; {:?}", q, c)),
                        }
                    }
                    hash_of(&bulk.iter().cloned().collect::<Vec<_>>())
                });
            }
        },
    );
    let nlong = rep.cfg.pick(140, 256);
    rep.run_sub(
        "bulk-vs-single-selection-long-lanes",
        &format!("every length 13..={} x 3 input families x 6 adversarial pivot policies (the same policy on both sides, recursion depth up to n-1) x index sets (ends, sparse, every 3rd, all): every entry of get_many_from_sorted_mut vs get_from_sorted_mut", nlong),
        (13..=nlong).flat_map(|n| (0..3usize).flat_map(move |fam| Policy::ADVERSARIAL.iter().map(move |&p| (n, fam, p)).collect::<Vec<_>>())),
        |c, lx| {
            let (n, fam, pol) = *c;
            lx.nontrivial(true);
            let vals: Vec<i32> = (0..n).map(|i| match fam { 0 => i as i32, 1 => (n - i) as i32, _ => ((i * 7919 + 5) % n) as i32 / 2 }).collect();
            let mut sorted = vals.clone();
            sorted.sort();
            let sets: Vec<Vec<usize>> = vec![vec![0, n - 1], vec![n / 2, 1, n - 2], (0..n).step_by(3).collect(), (0..n).collect()];
            let mode = PivotMode::Bounded { policy: pol, bound: 0 };
            for set in sets {
                lx.explore(&mode, |lx| {
                    let mut a = Array1::from(vals.clone());
                    let r = guarded(|| a.get_many_from_sorted_mut(&Array1::from(set.clone())));
                    match r {
                        Ok(m) => {
                            for &i in &set {
                                // the single-item call under the same policy
                                let mut b = Array1::from(vals.clone());
                                let single = guarded(|| b.get_from_sorted_mut(i));
                                match (m.get(&i), single) {
                                    (Some(v), Ok(s)) => {
                                        lx.check(*v == s, "C18/bulk-vs-single-selection", || format!("length {} family {} policy {:?}: get_many_from_sorted_mut entry {} = {} but get_from_sorted_mut({}) = {}", n, fam, pol, i, v, i, s));
                                    }
                                    (None, _) => lx.fail("C18/bulk-selection-missing-entry", || format!("length {}: no entry for {}", n, i)),
                                    (_, Err(e)) => lx.fail("C18/single-failed", || format!("get_from_sorted_mut({}) panicked: {}", i, e)),
                                }
                            }
                            hash_of(&m.len())
                        }
                        Err(e) => {
                            lx.fail("C18/bulk-failed", || format!("get_many_from_sorted_mut on length {} ({:?}) panicked: {}", n, pol, e));
                            0
                        }
                    }
                });
            }
        },
    );
    let mut acases: Vec<ACase> = Vec::new();
    for shape in [vec![2usize, 3], vec![3, 2], vec![3, 2, 2], vec![2, 2, 3], vec![2, 2, 2, 2], vec![2, 1, 2, 2, 2]] {
        let d = shape.len();
        for axis in 0..d {
            let layouts = if d <= 3 { all_layouts(d, &[1, 2, -1, -2]) } else { nsmc::layouts::covering_layouts(d, &[1, 2, -1, -2]) };
            for l in layouts {
                for fill in 0..(if thorough { 12 } else { 9 }) {
                    acases.push(ACase { shape: shape.clone(), axis, layout: l.clone(), fill });
                }
            }
        }
    }
    rep.run_sub(
        "axis-forms-vs-lane-routine",
        "shapes (2,3), (3,2), (3,2,2), (2,2,3), (2,2,2,2), (2,1,2,2,2) x every axis x all layouts (4-D, 5-D: covering subset) x fills: weighted_sum_axis / weighted_mean_axis (i64: exact equality; f64: within twice the summation bound) and weighted_var_axis / weighted_std_axis (ddof 0, 0.5, 1) vs the whole-array routine applied to each lane; fills with all weights equal to 0.5 / 2; special fills: a negative weight, +inf / NaN observations on an exactly-zero weight",
        acases.into_iter(),
        |c, lx| {
            lx.nontrivial(true);
            run_axis(c, lx)
        },
    );
    // weights that are a lane of the matrix itself (a row as the weights of the columns, a column as the
    // weights of the rows, a lane as its own weights): data and weights start at the same address or overlap
    rep.run_sub(
        "axis-forms-with-aliasing-weights",
        "every 3x3 matrix over {0.5, 1, 2} (f64) / {1, 2, 3} (i64), standard and column-major x axis x weights = row k / column k of the matrix itself (k = 0, 1, 2; crossing lanes and the lane itself): every element of weighted_sum_axis / weighted_mean_axis / weighted_var_axis / weighted_std_axis (ddof 0, 1) equals the whole-array routine on owned copies of the lane and the weights and on the lane view with the same weights view (integers exactly, floats as the same number)",
        sequences(9, 3),
        |digits, lx| {
            lx.nontrivial(digits.iter().any(|&d| d != digits[0]));
            lx.single(|lx| {
                let mut obs: Vec<u64> = Vec::new();
                const VF: [f64; 3] = [0.5, 1.0, 2.0];
                for colmajor in [false, true] {
                    let mf = if colmajor { Array2::from_shape_vec((3, 3).f(), digits.iter().map(|&d| VF[d as usize]).collect()).unwrap() } else { Array2::from_shape_vec((3, 3), digits.iter().map(|&d| VF[d as usize]).collect()).unwrap() };
                    let mi = mf.mapv(|x| (x * 2.0) as i64);
                    for axis in 0..2usize {
                        for wsel in 0..6usize {
                            // 0..3: row k, 3..6: column k
                            let (wf, wi) = if wsel < 3 { (mf.row(wsel), mi.row(wsel)) } else { (mf.column(wsel - 3), mi.column(wsel - 3)) };
                            let (wfo, wio) = (Array1::from(wf.to_vec()), Array1::from(wi.to_vec()));
                            let what = format!("{} {} of the {} matrix as weights along axis {}", if wsel < 3 { "row" } else { "column" }, wsel % 3, if colmajor { "column-major" } else { "standard" }, axis);
                            let (vmi, vmf) = (mi.view(), mf.view());
                            match guarded(|| (vmi.weighted_sum_axis(Axis(axis), &wi), vmi.weighted_mean_axis(Axis(axis), &wi))) {
                                Ok((Ok(rs), Ok(rm))) => {
                                    for j in 0..3usize {
                                        let la = Array1::from(mi.index_axis(Axis(1 - axis), j).to_vec());
                                        let (s1, m1) = (la.weighted_sum(&wio).unwrap(), la.weighted_mean(&wio).unwrap());
                                        lx.check(rs.len() == 3 && rs[j] == s1, "C18/int-weighted-sum-axis-vs-lane", || format!("{}: weighted_sum_axis = {:?} but weighted_sum of lane {} {:?} with {:?} = {}", what, rs, j, la, wio, s1));
                                        lx.check(rm.len() == 3 && rm[j] == m1, "C18/int-weighted-mean-axis-vs-lane", || format!("{}: weighted_mean_axis = {:?} but weighted_mean of lane {} {:?} with {:?} = {}", what, rm, j, la, wio, m1));
                                        // ... and applied to the lane as it lies in the matrix, with the very same weights view
                                        let lv = vmi.index_axis(Axis(1 - axis), j);
                                        match guarded(|| (lv.weighted_sum(&wi), lv.weighted_mean(&wi))) {
                                            Ok((Ok(s2), Ok(m2))) => { lx.check(rs.len() == 3 && rm.len() == 3 && rs[j] == s2 && rm[j] == m2, "C18/int-weighted-sum-axis-vs-lane", || format!("{}: weighted_sum_axis / weighted_mean_axis = {:?} / {:?} but the whole-array routines on lane {} (a view of the matrix, {:?}) with the same weights view {:?} give {} / {}", what, rs, rm, j, la, wio, s2, m2)); }
                                            other => lx.fail("C18/axis-failed", || format!("{}: whole-array routines on lane view {} failed: {:?}", what, j, other)),
                                        }
                                        obs.push(s1 as u64);
                                    }
                                }
                                other => lx.fail("C18/axis-failed", || format!("{}: integer axis forms failed: {:?}", what, other.map(|(a, b)| (a.map(|_| ()), b.map(|_| ()))))),
                            }
                            for ddof in [0.0, 1.0] {
                                match guarded(|| (vmf.weighted_sum_axis(Axis(axis), &wf), vmf.weighted_mean_axis(Axis(axis), &wf), vmf.weighted_var_axis(Axis(axis), &wf, ddof), vmf.weighted_std_axis(Axis(axis), &wf, ddof))) {
                                    Ok((Ok(rs), Ok(rm), Ok(rv), Ok(rsd))) => {
                                        for j in 0..3usize {
                                            let la = Array1::from(mf.index_axis(Axis(1 - axis), j).to_vec());
                                            let (s1, m1, v1, sd1) = (la.weighted_sum(&wfo).unwrap(), la.weighted_mean(&wfo).unwrap(), la.weighted_var(&wfo, ddof).unwrap(), la.weighted_std(&wfo, ddof).unwrap());
                                            let eqf = |a: f64, b: f64| a.to_bits() == b.to_bits() || (a.is_nan() && b.is_nan()) || a == b;
                                            let ok = rs.len() == 3 && rm.len() == 3 && rv.len() == 3 && rsd.len() == 3 && eqf(rs[j], s1) && eqf(rm[j], m1) && eqf(rv[j], v1) && eqf(rsd[j], sd1);
                                            lx.check(ok, "C18/axis-form-not-identical-to-lane-routine", || format!("{} (ddof {}): per-axis (sum, mean, var, std) = ({:?}, {:?}, {:?}, {:?}) but the whole-array routines on lane {} {:?} with weights {:?} give ({:e}, {:e}, {:e}, {:e})", what, ddof, rs, rm, rv, rsd, j, la, wfo, s1, m1, v1, sd1));
                                            let lv = vmf.index_axis(Axis(1 - axis), j);
                                            match guarded(|| (lv.weighted_sum(&wf), lv.weighted_mean(&wf), lv.weighted_var(&wf, ddof), lv.weighted_std(&wf, ddof))) {
                                                Ok((Ok(s2), Ok(m2), Ok(v2), Ok(sd2))) => {
                                                    let ok = rs.len() == 3 && rm.len() == 3 && rv.len() == 3 && rsd.len() == 3 && eqf(rs[j], s2) && eqf(rm[j], m2) && eqf(rv[j], v2) && eqf(rsd[j], sd2);
                                                    lx.check(ok, "C18/axis-form-not-identical-to-lane-routine", || format!("{} (ddof {}): per-axis (sum, mean, var, std) = ({:?}, {:?}, {:?}, {:?}) but the whole-array routines on lane {} as it lies in the matrix ({:?}) with the same weights view {:?} give ({:e}, {:e}, {:e}, {:e})", what, ddof, rs, rm, rv, rsd, j, la, wfo, s2, m2, v2, sd2));
                                                }
                                                other => lx.fail("C18/axis-failed", || format!("{} (ddof {}): whole-array routines on lane view {} failed: {:?}", what, ddof, j, other)),
                                            }
                                            obs.push(v1.to_bits());
                                        }
                                    }
                                    other => lx.fail("C18/axis-failed", || format!("{} (ddof {}): float axis forms failed: {:?}", what, ddof, other.map(|(a, b, c, d)| (a.map(|_| ()), b.map(|_| ()), c.map(|_| ()), d.map(|_| ()))))),
                                }
                            }
                        }
                    }
                }
                hash_of(&obs)
            });
        },
    );
    rep.finish();
}
