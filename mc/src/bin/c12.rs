//! C12 — strategy-built bins start at the minimum and cover every observation.
use ndarray::prelude::*;
use ndarray_stats::histogram::strategies::{Auto, BinsBuildingStrategy, FreedmanDiaconis, Rice, Sqrt, Sturges};
use ndarray_stats::histogram::{Bins, GridBuilder};
use ndarray_stats::HistogramExt;
use noisy_float::types::N64;
use nsmc::patterns::sequences;
use nsmc::*;
use num_traits::{FromPrimitive, NumOps, Zero};
use std::fmt::Debug;
use std::time::Duration;

trait BE: Ord + Clone + Debug + FromPrimitive + NumOps + Zero + Send + Sync + 'static {
    const NAME: &'static str;
    const IS_FLOAT: bool;
    fn f(&self) -> f64;
    /// largest value of the type (as f64; infinity for floats)
    fn tmax() -> f64;
}
macro_rules! be_int {
    ($t:ty) => {
        impl BE for $t {
            const NAME: &'static str = stringify!($t);
            const IS_FLOAT: bool = false;
            fn f(&self) -> f64 {
                *self as f64
            }
            fn tmax() -> f64 {
                <$t>::MAX as f64
            }
        }
    };
}
be_int!(u8);
be_int!(i16);
be_int!(i32);
be_int!(i64);
be_int!(u32);
be_int!(usize);
impl BE for N64 {
    const NAME: &'static str = "N64";
    const IS_FLOAT: bool = true;
    fn f(&self) -> f64 {
        self.raw()
    }
    fn tmax() -> f64 {
        f64::INFINITY
    }
}

#[derive(Debug, Clone, Copy, PartialEq)]
enum St {
    Sqrt,
    Rice,
    Sturges,
    Fd,
    Auto,
}
const STRATS: [St; 5] = [St::Sqrt, St::Rice, St::Sturges, St::Fd, St::Auto];

struct Built<T: BE> {
    bins: Bins<T>,
    n_bins: usize,
    width: T,
}

#[derive(Debug)]
enum Outcome {
    Empty,
    Strategy,
    OtherErr(String),
    /// accepted, but range/width exceeds the bin limit: not built (allocation test, not a logic test)
    TooManyBins,
    /// accepted, but max + width is not representable in the integer type: outside the property's domain
    MaxPlusWidthNotRepresentable,
    /// accepted with a bin width that is not positive: `min + n * width` never passes the maximum, so
    /// neither `n_bins()` nor `build()` can terminate (they are not called)
    NonPositiveWidth(String),
}

fn build<T: BE>(s: St, a: &Array1<T>, range: f64, limit: f64, maxf: f64) -> Result<Result<Built<T>, Outcome>, String> {
    macro_rules! go {
        ($ty:ident) => {{
            guarded(|| match $ty::<T>::from_array(a) {
                Ok(b) => {
                    let w = b.bin_width();
                    if !(w.f() > 0.0) {
                        Err(Outcome::NonPositiveWidth(format!("{:?}", w)))
                    } else if range / w.f() > limit {
                        Err(Outcome::TooManyBins)
                    } else if maxf + w.f() > T::tmax() {
                        Err(Outcome::MaxPlusWidthNotRepresentable)
                    } else {
                        Ok(Built { bins: b.build(), n_bins: b.n_bins(), width: w })
                    }
                }
                Err(e) => Err(if e.is_empty_input() {
                    Outcome::Empty
                } else if e.is_strategy() {
                    Outcome::Strategy
                } else {
                    Outcome::OtherErr(format!("{:?}", e))
                }),
            })
        }};
    }
    match s {
        St::Sqrt => go!(Sqrt),
        St::Rice => go!(Rice),
        St::Sturges => go!(Sturges),
        St::Fd => go!(FreedmanDiaconis),
        St::Auto => go!(Auto),
    }
}

static BIN_LIMIT: std::sync::atomic::AtomicU64 = std::sync::atomic::AtomicU64::new(200_000);

fn ulp_of(x: f64) -> f64 {
    nsmc::patterns::ulp(x)
}

/// Checks one (strategy, data set); returns an observation hash.
fn check_one<T: BE>(s: St, data: &[T], label: &dyn Fn() -> String, lx: &mut Local) -> u64 {
    let a = Array1::from(data.to_vec());
    let n = data.len();
    let desc = || format!("[{}] {:?} on {}", T::NAME, s, label());
    let range = if n == 0 { 0.0 } else { data.iter().max().unwrap().f() - data.iter().min().unwrap().f() };
    let maxf = if n == 0 { 0.0 } else { data.iter().max().unwrap().f() };
    let r = build(s, &a, range, BIN_LIMIT.load(std::sync::atomic::Ordering::Relaxed) as f64, maxf);
    let r = match r {
        Err(m) => {
            lx.fail("C12/panic", || format!("{} panicked: {}", desc(), m));
            return 0;
        }
        Ok(r) => r,
    };
    let constant = n > 0 && data.iter().all(|x| *x == data[0]);
    match r {
        Err(Outcome::Empty) => {
            lx.check(n == 0, "C12/spurious-empty-input", || format!("{} returned EmptyInput for non-empty data", desc()));
            1
        }
        Err(Outcome::Strategy) => {
            lx.check(n != 0, "C12/empty-not-reported", || format!("{} returned Strategy for empty data", desc()));
            lx.count("strategy_errors", 1);
            2
        }
        Err(Outcome::MaxPlusWidthNotRepresentable) => {
            lx.skip("integer data: maximum + one bin width is not representable in the element type (outside the domain)");
            8
        }
        Err(Outcome::NonPositiveWidth(w)) => {
            lx.fail("C12/accepted-with-non-positive-width", || format!("{} accepted the data with bin width {}: construction of the bins cannot terminate", desc(), w));
            9
        }
        Err(Outcome::TooManyBins) => {
            lx.skip("accepted but range/width exceeds the bin limit (not built)");
            7
        }
        Err(Outcome::OtherErr(e)) => {
            lx.fail("C12/unexpected-error", || format!("{} returned {}", desc(), e));
            3
        }
        Ok(b) => {
            if n == 0 {
                lx.fail("C12/empty-accepted", || format!("{} accepted empty data", desc()));
                return 4;
            }
            if constant {
                lx.fail("C12/constant-accepted", || format!("{} accepted constant data", desc()));
                return 5;
            }
            lx.count("accepted_data_sets", 1);
            let min = data.iter().min().unwrap().clone();
            let max = data.iter().max().unwrap().clone();
            let nb = b.bins.len();
            if !lx.check(nb >= 1, "C12/no-bins", || format!("{} built zero bins", desc())) {
                return 6;
            }
            let mut edges: Vec<T> = vec![b.bins.index(0).start];
            for i in 0..nb {
                edges.push(b.bins.index(i).end);
            }
            let w = b.width.f();
            let first = &edges[0];
            let last = &edges[edges.len() - 1];
            lx.check(*first == min, "C12/first-edge-not-min", || format!("{}: first edge {:?}, minimum {:?}", desc(), first, min));
            lx.check(*last > max, "C12/last-edge-not-above-max", || format!("{}: last edge {:?} is not strictly above the maximum {:?} (width {:?}, {} bins)", desc(), last, max, b.width, nb));
            // tolerance-free form of "at most one bin width above the maximum": the last bin is needed,
            // i.e. it starts at or below the maximum (no bin lies entirely above the data)
            lx.check(edges[nb - 1] <= max, "C12/bin-entirely-above-max", || format!("{}: the last bin [{:?}, {:?}) lies entirely above the maximum {:?} ({} bins, width {:?})", desc(), edges[nb - 1], last, max, nb, b.width));
            let scale = min.f().abs().max(max.f().abs());
            let sub_ulp = T::IS_FLOAT && w < 4.0 * ulp_of(scale);
            if sub_ulp {
                lx.count("float_width_below_4_ulp", 1);
            } else {
                // edges are min + i*width rounded once or twice: their error scales with ulp(max(|min|,|max|,|edge|))
                let tol = if T::IS_FLOAT { 4.0 * ulp_of(last.f().abs().max(scale)) } else { 0.0 };
                lx.check(last.f() - max.f() <= w + tol, "C12/last-edge-too-far", || format!("{}: last edge {:?} exceeds the maximum {:?} by more than one width {:?}", desc(), last, max, b.width));
                for i in 0..nb {
                    let d = edges[i + 1].f() - edges[i].f();
                    let ok = if T::IS_FLOAT { (d - w).abs() <= 4.0 * ulp_of(edges[i + 1].f().abs().max(edges[i].f().abs()).max(scale)) } else { edges[i + 1].clone() - edges[i].clone() == b.width };
                    if !lx.check(ok, "C12/unequal-widths", || format!("{}: edges {:?} and {:?} differ by {:e}, width {:?}", desc(), edges[i], edges[i + 1], d, b.width)) {
                        break;
                    }
                }
                lx.check(b.n_bins == nb, "C12/n-bins-mismatch", || format!("{}: n_bins() = {} but build() made {} bins (width {:?})", desc(), b.n_bins, nb, b.width));
            }
            // every distinct data value has exactly one bin
            let mut distinct = data.to_vec();
            distinct.sort();
            distinct.dedup();
            for v in &distinct {
                match b.bins.index_of(v) {
                    Some(i) => {
                        let r = b.bins.index(i);
                        lx.check(r.start <= *v && *v < r.end, "C12/value-in-wrong-bin", || format!("{}: value {:?} reported in bin {:?}", desc(), v, r));
                    }
                    None => lx.fail("C12/value-not-covered", || format!("{}: value {:?} falls in no bin (edges {:?} .. {:?}, {} bins)", desc(), v, first, last, nb)),
                }
            }
            hash_of(&(nb, format!("{:?}", b.width)))
        }
    }
}

#[derive(Debug, Clone)]
struct Small {
    digits: Vec<u8>,
    ty: u8,
}

fn small_vals<T: BE>(d: &[u8]) -> Vec<T> {
    if T::IS_FLOAT {
        // 60000.1 instead of 1e6+0.1 on every other data set: bin counts between 2^16 and the bin limit occur
        let far = if d.iter().map(|&x| x as usize).sum::<usize>() % 2 == 0 { 1e6 + 0.1 } else { 60000.1 };
        d.iter().map(|&x| T::from_f64([0.0, 0.1, 0.7, 1.0 / 3.0, far][x as usize]).unwrap()).collect()
    } else {
        d.iter().map(|&x| T::from_usize([0usize, 1, 2, 5, 11][x as usize]).unwrap()).collect()
    }
}

/// The strategies look at the minimum, the maximum, the number of observations and (Freedman-Diaconis)
/// two quantiles: the same observations presented as a stepped, reversed view inside a parent filled
/// with a far larger sentinel must give the same verdict, the same width and the same edges.
fn check_view_equiv<T: BE>(s: St, data: &[T], lx: &mut Local) -> u64 {
    let owned = Array1::from(data.to_vec());
    let sentinel = T::from_i64(120).unwrap();
    let mut obs: Vec<String> = Vec::new();
    for step in [-1isize, 2, -3] {
        let host = nsmc::layouts::Host1::new(data, step, 1, sentinel.clone());
        let view = host.view();
        macro_rules! go {
            ($ty:ident) => {{
                let summary = |r: Result<$ty<T>, ndarray_stats::histogram::errors::BinsBuildError>| match r {
                    Ok(b) => {
                        let w = b.bin_width();
                        format!("Ok(width {:?}; {:?})", w, b)
                    }
                    Err(e) => format!("Err({:?})", e),
                };
                (guarded(|| summary($ty::<T>::from_array(&owned))), guarded(|| summary($ty::<T>::from_array(&view))))
            }};
        }
        let (a, b) = match s {
            St::Sqrt => go!(Sqrt),
            St::Rice => go!(Rice),
            St::Sturges => go!(Sturges),
            St::Fd => go!(FreedmanDiaconis),
            St::Auto => go!(Auto),
        };
        match (&a, &b) {
            (Ok(x), Ok(y)) => {
                lx.check(x == y, "C12/view-differs-from-owned", || format!("[{}] {:?} on {:?}: from_array of the owned array gives {} but of the same observations as a view with step {} gives {}", T::NAME, s, data, x, step, y));
            }
            (Ok(x), Err(m)) => lx.fail("C12/panic", || format!("[{}] {:?} on {:?} as a view with step {} panicked: {} (owned array: {})", T::NAME, s, data, step, m, x)),
            // a panic on the owned array is reported by the main check of this data set
            (Err(_), _) => {}
        }
        obs.push(format!("{:?}", b));
    }
    hash_of(&obs)
}

fn run_small<T: BE>(c: &Small, lx: &mut Local) {
    let data: Vec<T> = small_vals(&c.digits);
    for s in STRATS {
        lx.single(|lx| check_one(s, &data, &|| format!("{:?}", data), lx));
        lx.single(|lx| check_view_equiv(s, &data, lx));
    }
}

#[derive(Debug, Clone)]
struct Large {
    n: usize,
    pair: usize,
    placement: u8,
    strat: St,
}

const FPAIRS: [(f64, f64); 17] = [
    (0.0, 1.0),
    (0.1, 0.7),
    (-0.3, 0.3),
    (0.1, 1000.0),
    (-1.0, 0.3333333333333333),
    (1000000.1, 1000000.9),
    (1.0, 1.0000000000000002),
    (1.0, 1.0000000000000009),
    (1e16, 10000000000000002.0),
    (-1e-300, 1e-300),
    (1e300, 1.1e300),
    (0.7, 11.3),
    (-2.5e-7, 3.75e8),
    // min + (max - min) rounds to a value ABOVE max (a maximum rebuilt from the range is not the maximum)
    (0.7, 2.9),
    (1.4, 5.7),
    (2.3, 12.9),
    (20.400000000000002, 58.9),
];
const IPAIRS: [(i64, i64); 10] = [(0, 1), (0, 7), (-50, 1000), (3, 1_000_003), (-1_000_000_000, 1_000_000_000), (0, 19), (0, 50), (5, 37), (0, 200), (-7, 3000)];

/// data of length n with the given minimum and maximum and quartile placement
fn large_data<T: BE>(n: usize, lo: f64, hi: f64, placement: u8, int: bool) -> Vec<T> {
    let mk = |x: f64| -> T {
        if int {
            T::from_i64(x.round() as i64).unwrap()
        } else {
            T::from_f64(x).unwrap()
        }
    };
    (0..n)
        .map(|i| {
            if i == 0 {
                return mk(lo);
            }
            if i == n - 1 {
                return mk(hi);
            }
            match placement {
                0 => mk(lo),                                                        // zero IQR
                1 => mk((lo + (hi - lo) * (i as f64 / (n - 1) as f64)).max(lo).min(hi)), // evenly spread
                2 => mk(if i < n / 2 { lo } else { hi }),                         // quartiles at the extremes
                _ => {
                    // small positive IQR: both quartiles next to the middle of the range, one unit
                    // (integers) or a thousandth of the range (floats) apart
                    let mid = ((lo + hi) / 2.0).floor();
                    let step = if int { 1.0 } else { (hi - lo) / 1000.0 };
                    mk(if i < n / 2 { mid } else { mid + step })
                }
            }
        })
        .collect()
}

fn run_large(c: &Large, lx: &mut Local) {
    let nf = FPAIRS.len();
    if c.pair < nf {
        let (lo, hi) = FPAIRS[c.pair];
        let data: Vec<N64> = large_data(c.n, lo, hi, c.placement, false);
        lx.single(|lx| check_one(c.strat, &data, &|| format!("n={} min={:e} max={:e} placement {}", c.n, lo, hi, c.placement), lx));
    } else {
        let (lo, hi) = IPAIRS[c.pair - nf];
        let data: Vec<i64> = large_data(c.n, lo as f64, hi as f64, c.placement, true);
        lx.single(|lx| check_one(c.strat, &data, &|| format!("n={} min={} max={} placement {}", c.n, lo, hi, c.placement), lx));
        if lo >= 0 {
            let data: Vec<usize> = large_data(c.n, lo as f64, hi as f64, c.placement, true);
            lx.single(|lx| check_one(c.strat, &data, &|| format!("n={} min={} max={} placement {}", c.n, lo, hi, c.placement), lx));
        }
    }
}

#[derive(Debug, Clone)]
struct GridCase {
    cols: usize,
    rows: usize,
    fill: usize,
    strat: St,
    ty: u8,
}

fn run_grid<T: BE>(c: &GridCase, lx: &mut Local) {
    // column j: values spread differently per column; non-constant
    let vals: Vec<T> = (0..c.rows * c.cols)
        .map(|k| {
            let (i, j) = (k / c.cols, k % c.cols);
            let x = ((i * (j + 2) * 7 + c.fill * 3 + j) % (11 + 6 * j)) as f64;
            if T::IS_FLOAT && c.fill == 3 {
                // coarse floats: only a few distinct representable values, so equispaced edges collide and are de-duplicated
                T::from_f64(1e16 + 2.0 * ((x as usize) % 3) as f64 + j as f64 * 1e17).unwrap()
            } else if T::IS_FLOAT {
                T::from_f64(x * 0.1 + j as f64 * 1000.3).unwrap()
            } else {
                T::from_f64(x + (j * 100) as f64).unwrap()
            }
        })
        .collect();
    let m = Array2::from_shape_vec((c.rows, c.cols), vals.clone()).unwrap();
    lx.single(|lx| {
        macro_rules! go {
            ($ty:ident) => {{
                guarded(|| match GridBuilder::<$ty<T>>::from_array(&m) {
                    Ok(gb) => {
                        let grid = gb.build();
                        let shape = grid.shape();
                        // the accessors of the grid agree with its projections, and every in-shape index is answerable
                        let plens: Vec<usize> = grid.projections().iter().map(|b| b.len()).collect();
                        if plens != shape {
                            return Err(format!("Grid::shape() = {:?} but its projections have {:?} bins", shape, plens));
                        }
                        if shape.iter().all(|&s| s >= 1) {
                            let last: Vec<usize> = shape.iter().map(|&s| s - 1).collect();
                            let cell = grid.index(&last);
                            if cell.len() != shape.len() {
                                return Err(format!("Grid::index({:?}) returned {} ranges", last, cell.len()));
                            }
                        }
                        // the same observations as a column-major matrix and as a view with the columns reversed
                        // twice: the histogram must be the same
                        let h = m.histogram(grid);
                        let mf = m.clone().reversed_axes().as_standard_layout().into_owned().reversed_axes();
                        let gb2 = GridBuilder::<$ty<T>>::from_array(&mf).map_err(|e| format!("histogram: the column-major copy of the observations is rejected: {:?}", e))?;
                        let hf = mf.histogram(gb2.build());
                        if hf.counts() != h.counts() {
                            return Err(format!("histogram: of the column-major copy of the observations has counts summing to {}, of the row-major matrix {}", hf.counts().sum(), h.counts().sum()));
                        }
                        Ok((h.counts().sum(), shape))
                    }
                    Err(e) => Err(format!("{:?}", e)),
                })
            }};
        }
        let r = match c.strat {
            St::Sqrt => go!(Sqrt),
            St::Rice => go!(Rice),
            St::Sturges => go!(Sturges),
            St::Fd => go!(FreedmanDiaconis),
            St::Auto => go!(Auto),
        };
        match r {
            Err(msg) => {
                lx.fail("C12/panic", || format!("[{}] GridBuilder<{:?}> / histogram panicked: {}; {:?}", T::NAME, c.strat, msg, c));
                0
            }
            Ok(Err(e)) if e.starts_with("histogram:") => {
                lx.fail("C12/histogram-total", || format!("[{}] GridBuilder<{:?}>: {}; {:?}", T::NAME, c.strat, e, c));
                3
            }
            Ok(Err(e)) if e.starts_with("Grid::") => {
                lx.fail("C12/grid-accessors-disagree", || format!("[{}] GridBuilder<{:?}>: {}; {:?}", T::NAME, c.strat, e, c));
                2
            }
            Ok(Err(_)) => {
                lx.count("grid_strategy_errors", 1);
                1
            }
            Ok(Ok((total, shape))) => {
                lx.count("grids_built", 1);
                lx.check(total == c.rows, "C12/histogram-total", || format!("[{}] histogram over the GridBuilder<{:?}> grid (shape {:?}) counts {} of {} observations; matrix {:?}", T::NAME, c.strat, shape, total, c.rows, vals));
                hash_of(&(total, shape))
            }
        }
    });
}

fn main() {
    let mut rep = Report::new("C12");
    rep.watchdog = Some(Duration::from_secs(30));
    rep.rule = "case = (data set over a small alphabet, element type) x 5 strategies; (n, (min,max) pair, quartile placement, strategy); (columns, rows, fill, strategy, type) through GridBuilder; non-trivial = non-constant data".into();
    rep.assume("termination is decided by a watchdog: a call that does not return within 30 s is reported as a violation (the harness cannot interrupt it; the process reports and exits)");
    rep.assume("for floating-point data whose bin width is below 4 ulp of max(|min|,|max|) consecutive edges cannot be separated: only termination, first edge == min, last edge > max and coverage are required there");
    BIN_LIMIT.store(rep.cfg.pick(200_000, 1_000_000), std::sync::atomic::Ordering::Relaxed);
    rep.assume("data sets whose range/width exceeds 2*10^5 (thorough: 10^6) bins are not built: skipped and counted");
    let lmax = rep.cfg.pick(6, 7);
    let cases = (0..=lmax).flat_map(|l| sequences(l, 5)).flat_map(|d| (0..5u8).map(move |ty| Small { digits: d.clone(), ty }));
    rep.run_sub(
        "small-complete",
        &format!("every data set of length 0..={} over {{0,1,2,5,11}} (i32, i64, u32, usize) and {{0, 0.1, 0.7, 1/3, 1e6+0.1 or 60000.1}} (N64) x Sqrt, Rice, Sturges, FreedmanDiaconis, Auto; each data set also as a reversed, a stepped and a stepped-reversed view inside a sentinel-filled parent: same verdict, width, minimum and maximum as for the owned array", lmax),
        cases,
        |c, lx| {
            let mut d = c.digits.clone();
            d.sort();
            d.dedup();
            lx.nontrivial(d.len() >= 2);
            match c.ty {
                0 => run_small::<i32>(c, lx),
                1 => run_small::<i64>(c, lx),
                2 => run_small::<u32>(c, lx),
                3 => run_small::<usize>(c, lx),
                _ => run_small::<N64>(c, lx),
            }
        },
    );
    let nmax = rep.cfg.pick(3000, 10000);
    let mut cases: Vec<Large> = Vec::new();
    for pair in 0..(FPAIRS.len() + IPAIRS.len()) {
        for n in 2..=nmax {
            for strat in STRATS {
                let quad = matches!(strat, St::Fd | St::Auto);
                if quad && n > 600 && n % 97 != 0 {
                    continue;
                }
                for placement in 0..4u8 {
                    // the placement only matters for FD / Auto (the others look at n, min, max)
                    if !quad && placement != 1 {
                        continue;
                    }
                    // small positive IQR: integer pairs only, with room for two distinct middle values
                    if placement == 3 && (pair < FPAIRS.len() || IPAIRS[pair - FPAIRS.len()].1 - IPAIRS[pair - FPAIRS.len()].0 < 4) {
                        continue;
                    }
                    // tie-heavy placements make quickselect quadratic: dense only for small n
                    if quad && placement != 1 && n > 300 && n % 97 != 0 {
                        continue;
                    }
                    cases.push(Large { n, pair, placement, strat });
                }
            }
        }
    }
    rep.run_sub(
        "every-n",
        &format!("every n in 2..={} for Sqrt / Rice / Sturges and every n <= 600 plus every 97th above for FreedmanDiaconis / Auto (quartile placements: zero IQR, evenly spread, quartiles at the extremes, and for integer data an IQR of one unit in the middle of the range; the two tie-heavy placements densely for n <= 300 and every 97th n above) x 17 N64 (min,max) pairs (pairs whose range added back to the minimum does not give the maximum, non-representable decimals, 1e6 offset with small spread, adjacent floats (1, 1+eps), (1, 1+4eps), (1e16, 1e16+2), +-1e-300, 1e300 scale) and 10 integer pairs incl. narrow ranges with heavy ties such as (0,19), (5,37), (0,200) (i64; usize when non-negative)", nmax),
        cases.into_iter(),
        |c, lx| {
            lx.nontrivial(true);
            run_large(c, lx)
        },
    );
    // integer data in the upper part of the type's range: max + width is representable, min + 2*range is not
    let umax = rep.cfg.pick(400, 1500);
    let ucases = (0..4u8).flat_map(move |ty| (16..=umax).flat_map(move |n| STRATS.iter().map(move |&strat| (ty, n, strat)).collect::<Vec<_>>()));
    rep.run_sub(
        "upper-range-integers",
        &format!("every n in 16..={} x 5 strategies x {{u8 data spanning 100..=220, i16 spanning 12000..=30000, i32 spanning 1e9..=2e9, u32 spanning 3e9..=4.2e9}} (evenly spread): the maximum plus one bin width is representable (cases where it is not are skipped and counted), but min + 2*(max-min) is not", umax),
        ucases,
        |c, lx| {
            lx.nontrivial(true);
            let (ty, n, strat) = *c;
            match ty {
                0 => {
                    let data: Vec<u8> = large_data(n, 100.0, 220.0, 1, true);
                    lx.single(|lx| check_one(strat, &data, &|| format!("u8 n={} spanning 100..=220", n), lx));
                }
                1 => {
                    let data: Vec<i16> = large_data(n, 12000.0, 30000.0, 1, true);
                    lx.single(|lx| check_one(strat, &data, &|| format!("i16 n={} spanning 12000..=30000", n), lx));
                }
                2 => {
                    let data: Vec<i32> = large_data(n, 1e9, 2e9, 1, true);
                    lx.single(|lx| check_one(strat, &data, &|| format!("i32 n={} spanning 1e9..=2e9", n), lx));
                }
                _ => {
                    let data: Vec<u32> = large_data(n, 3e9, 4.2e9, 1, true);
                    lx.single(|lx| check_one(strat, &data, &|| format!("u32 n={} spanning 3e9..=4.2e9", n), lx));
                }
            }
        },
    );
    let mut cases: Vec<GridCase> = Vec::new();
    for cols in 1..=3usize {
        for rows in [2usize, 3, 5, 8, 13, 40, 100] {
            for fill in 0..4usize {
                for strat in STRATS {
                    for ty in 0..2u8 {
                        cases.push(GridCase { cols, rows, fill, strat, ty });
                    }
                }
            }
        }
    }
    rep.run_sub(
        "grid-builder",
        "1..=3 columns x {2,3,5,8,13,40,100} observations x 4 fills x 5 strategies x i64 / N64: GridBuilder::from_array + build + HistogramExt::histogram; the histogram total must equal the number of observations",
        cases.into_iter(),
        |c, lx| {
            lx.nontrivial(true);
            if c.ty == 0 {
                run_grid::<i64>(c, lx)
            } else {
                run_grid::<N64>(c, lx)
            }
        },
    );
    rep.finish();
}
