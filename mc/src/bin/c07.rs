//! C07 — variance, central moments, skewness and kurtosis agree with exact arithmetic.
use ndarray::prelude::*;
use ndarray_stats::SummaryStatisticsExt;
use nsmc::exact::{sum, Rat};
use nsmc::fl::{self, err_of, rats, Fl};
use nsmc::layouts::{all_layouts, lanes_flat, Host, Host1, Layout};
use nsmc::patterns::sequences;
use nsmc::*;

const DATA: [f64; 7] = [-2.0, -1.0, 0.0, 0.1, 0.5, 1.0, 3.0];
const WEIGHTS: [f64; 4] = [0.0, 0.25, 1.0, 3.0];
const DDOF: [f64; 3] = [0.0, 0.5, 1.0];

#[derive(Debug, Clone)]
struct Case {
    digits: Vec<u8>,
    off: u8,
    ty: u8,
}

fn offsets<T: Fl>() -> Vec<f64> {
    if T::NAME == "f32" {
        vec![0.0, 1e3]
    } else {
        vec![0.0, 1e3, 1e6, 1e8]
    }
}

/// bound for the p-th central moment computed by a corrected two-pass algorithm
fn moment_bound<T: Fl>(xr: &[Rat], p: u32) -> f64 {
    let n = xr.len() as f64;
    let u = T::U;
    let mean_abs = fl::abs_sum(xr).to_f64_up_abs() / n;
    let delta = Rat::from_f64((n + 2.0) * u * mean_abs);
    let scale = fl::central_moment_abs(xr, p, &delta).to_f64_up_abs();
    4.0 * (n + 2.0 * p as f64) * u * scale
}

fn var_bound<T: Fl>(parts: &fl::WVar, n: usize, ddof: f64) -> f64 {
    let u = T::U;
    let s = parts.s.to_f64_up_abs();
    let swx2 = parts.swx2.to_f64_up_abs();
    let denom = (parts.w_total.to_f64() - ddof).abs();
    8.0 * (n as f64 + 4.0) * u * ((s * swx2).sqrt() * (1.0 + 1e-9) + s) / denom
}

fn weight_vectors(n: usize, salt: usize) -> Vec<Vec<u8>> {
    let all: Vec<Vec<u8>> = sequences(n, 4).collect();
    if n <= 3 {
        all
    } else {
        let k = if n == 4 { 12 } else { 6 };
        let mut v: Vec<Vec<u8>> = (0..k).map(|i| all[(salt * 7919 + i * (all.len() / k) + i) % all.len()].clone()).collect();
        // always include a leading-zero, an interior-zero and a trailing-zero weight vector
        let mut lead = vec![2u8; n];
        lead[0] = 0;
        let mut mid = vec![1u8; n];
        mid[n / 2] = 0;
        let mut trail = vec![3u8; n];
        trail[n - 1] = 0;
        v.push(lead);
        v.push(mid);
        v.push(trail);
        v
    }
}

fn check_std_interval(v: &Rat, b: f64, got: f64, u: f64) -> bool {
    let vf = v.to_f64();
    let lo = (vf - b).max(0.0).sqrt() * (1.0 - 4.0 * u);
    let hi = (vf + b).max(0.0).sqrt() * (1.0 + 4.0 * u) + f64::MIN_POSITIVE;
    if got.is_nan() {
        return vf - b < 0.0;
    }
    lo <= got && got <= hi
}

fn run<T: Fl>(c: &Case, lx: &mut Local) {
    let n = c.digits.len();
    let off = offsets::<T>()[c.off as usize];
    let xs: Vec<T> = c.digits.iter().map(|&d| T::of(DATA[d as usize] + off)).collect();
    let xr = rats(&xs);
    let u = T::U;
    let salt = c.digits.iter().fold(c.off as usize, |a, &d| a * 7 + d as usize);
    // ---- central moments, skewness, kurtosis
    let exact: Vec<Rat> = (0..=8u32).map(|p| fl::central_moment(&xr, p)).collect();
    let bounds: Vec<f64> = (0..=8u32).map(|p| if p < 2 { 0.0 } else { moment_bound::<T>(&xr, p) }).collect();
    for &st in &[1isize, 2, -1] {
        if n >= 5 && (st as usize).wrapping_add(salt) % 3 != 0 && st != 1 {
            continue;
        }
        lx.single(|lx| {
            let h = Host1::new(&xs, st, 1, T::of(777.0));
            let v = h.view();
            let mut obs = Vec::new();
            match guarded(|| v.central_moments(8)) {
                Ok(Ok(ms)) => {
                    lx.check(ms.len() == 9, "C07/central-moments-length", || format!("[{}] central_moments(8) returned {} entries", T::NAME, ms.len()));
                    for (p, m) in ms.iter().enumerate().take(9) {
                        let m = m.to_f64_();
                        if p == 0 {
                            lx.check(m == 1.0, "C07/order-0-not-one", || format!("[{}] central_moments(8)[0] = {:?} on {:?}", T::NAME, m, xs));
                        } else if p == 1 {
                            lx.check(m == 0.0, "C07/order-1-not-zero", || format!("[{}] central_moments(8)[1] = {:?} on {:?}", T::NAME, m, xs));
                        } else {
                            let e = err_of(m, &exact[p]);
                            lx.ratio(&format!("central_moment_order_{}", p), e / bounds[p].max(f64::MIN_POSITIVE));
                            lx.within(e, bounds[p], "C07/central-moment", || format!("[{}] central_moments(8)[{}] of {:?} = {:e}, exact {:e}, error {:e} > bound {:e}", T::NAME, p, xs, m, exact[p].to_f64(), e, bounds[p]));
                        }
                        obs.push(m.to_bits());
                    }
                }
                other => lx.fail("C07/central-moments-failed", || format!("[{}] central_moments(8) on {:?}: {:?}", T::NAME, xs, other.map(|r| r.map(|v| v.len())))),
            }
            // the bulk form with every smaller cut-off order (0, 1, 2 have their own code paths)
            for cut in 0..=4u16 {
                match guarded(|| v.central_moments(cut)) {
                    Ok(Ok(ms)) => {
                        lx.check(ms.len() == cut as usize + 1, "C07/central-moments-length", || format!("[{}] central_moments({}) returned {} entries", T::NAME, cut, ms.len()));
                        for (p, m) in ms.iter().enumerate().take(cut as usize + 1) {
                            let m = m.to_f64_();
                            if p == 0 {
                                lx.check(m == 1.0, "C07/order-0-not-one", || format!("[{}] central_moments({})[0] = {:?} on {:?}", T::NAME, cut, m, xs));
                            } else if p == 1 {
                                lx.check(m == 0.0, "C07/order-1-not-zero", || format!("[{}] central_moments({})[1] = {:?} on {:?}", T::NAME, cut, m, xs));
                            } else {
                                let e = err_of(m, &exact[p]);
                                lx.within(e, bounds[p], "C07/central-moment", || format!("[{}] central_moments({})[{}] of {:?} = {:e}, exact {:e}, error {:e} > bound {:e}", T::NAME, cut, p, xs, m, exact[p].to_f64(), e, bounds[p]));
                            }
                        }
                    }
                    other => lx.fail("C07/central-moments-failed", || format!("[{}] central_moments({}) on {:?}: {:?}", T::NAME, cut, xs, other.map(|r| r.map(|v| v.len())))),
                }
            }
            for p in 0..=8u16 {
                match guarded(|| v.central_moment(p)) {
                    Ok(Ok(m)) => {
                        let m = m.to_f64_();
                        if p == 0 {
                            lx.check(m == 1.0, "C07/order-0-not-one", || format!("[{}] central_moment(0) = {:?} on {:?}", T::NAME, m, xs));
                        } else if p == 1 {
                            lx.check(m == 0.0, "C07/order-1-not-zero", || format!("[{}] central_moment(1) = {:?} on {:?}", T::NAME, m, xs));
                        } else {
                            let e = err_of(m, &exact[p as usize]);
                            lx.within(e, bounds[p as usize], "C07/central-moment", || format!("[{}] central_moment({}) of {:?} (stride {}) = {:e}, exact {:e}, error {:e} > bound {:e}", T::NAME, p, xs, st, m, exact[p as usize].to_f64(), e, bounds[p as usize]));
                        }
                    }
                    other => lx.fail("C07/central-moment-failed", || format!("[{}] central_moment({}) on {:?}: {:?}", T::NAME, p, xs, other.map(|r| r.map(|x| x.to_f64_())))),
                }
            }
            // skewness / kurtosis by interval propagation of the moment bounds
            let mu2 = exact[2].to_f64();
            if mu2 > 4.0 * bounds[2] && mu2 > 0.0 {
                let (lo2, hi2) = (mu2 - bounds[2], mu2 + bounds[2]);
                for (name, p, pow) in [("skewness", 3usize, 1.5f64), ("kurtosis", 4usize, 2.0f64)] {
                    let mu = exact[p].to_f64();
                    let (lo, hi) = (mu - bounds[p], mu + bounds[p]);
                    let cands = [lo / lo2.powf(pow), lo / hi2.powf(pow), hi / lo2.powf(pow), hi / hi2.powf(pow)];
                    let mut a = cands.iter().cloned().fold(f64::INFINITY, f64::min);
                    let mut b = cands.iter().cloned().fold(f64::NEG_INFINITY, f64::max);
                    let slack = 16.0 * u * a.abs().max(b.abs()) + f64::MIN_POSITIVE;
                    a -= slack;
                    b += slack;
                    let r = guarded(|| if p == 3 { v.skewness() } else { v.kurtosis() });
                    match r {
                        Ok(Ok(g)) => {
                            let g = g.to_f64_();
                            lx.check(a <= g && g <= b, &format!("C07/{}", name), || format!("[{}] {} of {:?} = {:e}, admissible [{:e}, {:e}] (exact {:e})", T::NAME, name, xs, g, a, b, mu / mu2.powf(pow)));
                            obs.push(g.to_bits());
                        }
                        other => lx.fail("C07/skew-kurt-failed", || format!("[{}] {} on {:?}: {:?}", T::NAME, name, xs, other.map(|r| r.map(|x| x.to_f64_())))),
                    }
                }
            } else {
                lx.skip("skewness/kurtosis: second moment not separated from zero (constant or near-constant data)");
            }
            hash_of(&obs)
        });
    }
    // ---- weighted variance / std
    for wd in weight_vectors(n, salt) {
        let ws: Vec<T> = wd.iter().map(|&d| T::of(WEIGHTS[d as usize])).collect();
        let wr = rats(&ws);
        let wtot = sum(wr.iter());
        if wtot.is_zero() {
            lx.skip("weighted_var: total weight zero (outside the domain)");
            continue;
        }
        let parts = fl::weighted_var_parts(&xr, &wr);
        if wd[0] == 0 {
            lx.count("weight_vectors_with_leading_zero", 1);
        }
        for (di, &ddof) in DDOF.iter().enumerate() {
            let denom = &parts.w_total - &Rat::from_f64(ddof);
            if denom.is_zero() {
                lx.skip("weighted_var: total weight equals ddof (division by zero, outside the domain)");
                continue;
            }
            let want = &parts.s / &denom;
            let b = var_bound::<T>(&parts, n, ddof);
            let pair = [(1isize, 1isize), (2, -1), (-1, 3)][(di + wd.iter().map(|&d| d as usize).sum::<usize>()) % 3];
            lx.single(|lx| {
                let hx = Host1::new(&xs, pair.0, 1, T::of(777.0));
                let hw = Host1::new(&ws, pair.1, 2, T::of(555.0));
                let (vx, vw) = (hx.view(), hw.view());
                let mut obs = Vec::new();
                match guarded(|| vx.weighted_var(&vw, T::of(ddof))) {
                    Ok(Ok(g)) => {
                        let g = g.to_f64_();
                        let e = err_of(g, &want);
                        lx.ratio("weighted_var", e / b.max(f64::MIN_POSITIVE));
                        lx.within(e, b, "C07/weighted-var", || format!("[{}] weighted_var of {:?} weights {:?} ddof {} = {:e}, exact {:e}, error {:e} > bound {:e}", T::NAME, xs, ws, ddof, g, want.to_f64(), e, b));
                        if !denom.is_negative() {
                            lx.check(g >= -b, "C07/variance-negative", || format!("[{}] weighted_var of {:?} weights {:?} ddof {} = {:e} < -bound {:e}", T::NAME, xs, ws, ddof, g, b));
                        }
                        obs.push(g.to_bits());
                    }
                    other => lx.fail("C07/weighted-var-failed", || format!("[{}] weighted_var of {:?} weights {:?} ddof {}: {:?}", T::NAME, xs, ws, ddof, other.map(|r| r.map(|x| x.to_f64_())))),
                }
                match guarded(|| vx.weighted_std(&vw, T::of(ddof))) {
                    Ok(Ok(g)) => {
                        let g = g.to_f64_();
                        lx.check(check_std_interval(&want, b, g, u), "C07/weighted-std", || format!("[{}] weighted_std of {:?} weights {:?} ddof {} = {:e}, exact variance {:e} (bound {:e})", T::NAME, xs, ws, ddof, g, want.to_f64(), b));
                        obs.push(g.to_bits());
                    }
                    other => lx.fail("C07/weighted-std-failed", || format!("[{}] weighted_std: {:?}", T::NAME, other.map(|r| r.map(|x| x.to_f64_())))),
                }
                hash_of(&obs)
            });
        }
    }
}

#[derive(Debug, Clone)]
struct NCase {
    shape: Vec<usize>,
    axis: usize,
    layout: Layout,
    wstep: isize,
    fill: usize,
    ddof: u8,
    ty: u8,
}

fn run_nd<T: Fl>(c: &NCase, lx: &mut Local) {
    let n: usize = c.shape.iter().product();
    let ll = c.shape[c.axis];
    let u = T::U;
    let off = if c.fill % 3 == 1 { 1e3 } else { 0.0 };
    let data: Vec<T> = (0..n).map(|i| T::of(DATA[(i * 3 + c.fill) % 7] + off + (i as f64) * 0.25 * ((c.fill % 2) as f64))).collect();
    let ws: Vec<T> = (0..ll).map(|k| T::of(WEIGHTS[(k + c.fill / 2) % 4] + if k == ll - 1 { 0.5 } else { 0.0 })).collect();
    let wr = rats(&ws);
    let ddof = DDOF[c.ddof as usize];
    let lanes = lanes_flat(&c.shape, c.axis);
    lx.single(|lx| {
        let hd = Host::new(&c.shape, &data, &c.layout, T::of(777.0));
        let hw = Host1::new(&ws, c.wstep, 1, T::of(555.0));
        let (vd, vw) = (hd.view(), hw.view());
        let rv = guarded(|| vd.weighted_var_axis(Axis(c.axis), &vw, T::of(ddof)));
        let rs = guarded(|| vd.weighted_std_axis(Axis(c.axis), &vw, T::of(ddof)));
        let mut out_shape = c.shape.clone();
        out_shape.remove(c.axis);
        let mut obs = Vec::new();
        match (rv, rs) {
            (Ok(Ok(rv)), Ok(Ok(rs))) => {
                lx.check(rv.shape() == &out_shape[..] && rs.shape() == &out_shape[..], "C07/axis-shape", || format!("result shapes {:?}/{:?}, expected {:?}: {:?}", rv.shape(), rs.shape(), out_shape, c));
                let fv: Vec<T> = rv.iter().cloned().collect();
                let fs: Vec<T> = rs.iter().cloned().collect();
                for (j, lane) in lanes.iter().enumerate() {
                    if j >= fv.len() || j >= fs.len() {
                        break;
                    }
                    let lv: Vec<T> = lane.iter().map(|&i| data[i]).collect();
                    let parts = fl::weighted_var_parts(&rats(&lv), &wr);
                    let denom = &parts.w_total - &Rat::from_f64(ddof);
                    if denom.is_zero() {
                        lx.skip("weighted_var_axis: total weight equals ddof");
                        continue;
                    }
                    let want = &parts.s / &denom;
                    let b = var_bound::<T>(&parts, ll, ddof);
                    let e = err_of(fv[j].to_f64_(), &want);
                    lx.ratio("weighted_var_axis", e / b.max(f64::MIN_POSITIVE));
                    lx.within(e, b, "C07/weighted-var-axis", || format!("[{}] weighted_var_axis lane {} = {:?}, exact {:e}, error {:e} > bound {:e}; lane {:?} weights {:?} ddof {}; {:?}", T::NAME, j, fv[j], want.to_f64(), e, b, lv, ws, ddof, c));
                    lx.check(check_std_interval(&want, b, fs[j].to_f64_(), u), "C07/weighted-std-axis", || format!("[{}] weighted_std_axis lane {} = {:?}, exact variance {:e}; {:?}", T::NAME, j, fs[j], want.to_f64(), c));
                    // whole-array routine on that lane
                    let la = Array1::from(lv.clone());
                    let wa = Array1::from(ws.clone());
                    if let Ok(v1) = la.weighted_var(&wa, T::of(ddof)) {
                        lx.within((v1.to_f64_() - fv[j].to_f64_()).abs(), 2.0 * b, "C07/axis-vs-whole-array", || format!("[{}] weighted_var_axis lane {} = {:?} but weighted_var of the lane = {:?}", T::NAME, j, fv[j], v1));
                    }
                    obs.push(fv[j].bits_());
                }
            }
            (a, b) => lx.fail("C07/axis-failed", || format!("weighted_var_axis / weighted_std_axis failed: {:?} / {:?} on {:?}", a.map(|r| r.map(|_| ())), b.map(|r| r.map(|_| ())), c)),
        }
        // whole n-D array weighted variance / std: the weights array has the data's shape, in a layout of
        // its own (reversed axis order, flipped steps), with an asymmetric fill
        {
            let n: usize = c.shape.iter().product();
            let wfull: Vec<T> = (0..n).map(|i| T::of(WEIGHTS[1 + (i * i + i / 2 + c.fill) % 3])).collect();
            let lw = Layout { perm: c.layout.perm.iter().rev().cloned().collect(), steps: c.layout.steps.iter().map(|s| -s).collect(), pad: 1 };
            let hw2 = Host::new(&c.shape, &wfull, &lw, T::of(555.0));
            let parts = fl::weighted_var_parts(&rats(&data), &rats(&wfull));
            let denom = &parts.w_total - &Rat::from_f64(ddof);
            if !denom.is_zero() {
                let want = &parts.s / &denom;
                let b = var_bound::<T>(&parts, n, ddof);
                let (vd2, vw2) = (hd.view(), hw2.view());
                match guarded(|| vd2.weighted_var(&vw2, T::of(ddof))) {
                    Ok(Ok(g)) => {
                        let e = err_of(g.to_f64_(), &want);
                        lx.within(e, b, "C07/weighted-var-nd", || format!("[{}] n-D weighted_var(ddof {}) = {:?}, exact {:e}, error {:e} > bound {:e}: {:?} (weights {:?} in layout {:?})", T::NAME, ddof, g, want.to_f64(), e, b, c, wfull, lw));
                    }
                    other => lx.fail("C07/weighted-var-failed", || format!("n-D weighted_var: {:?} on {:?}", other.map(|r| r.map(|x| x.to_f64_())), c)),
                }
            }
        }
        // whole n-D array central moment (order 2..4) under this layout
        let dr = rats(&data);
        for p in 2..=4u16 {
            if let Ok(Ok(m)) = guarded(|| vd.central_moment(p)) {
                let want = fl::central_moment(&dr, p as u32);
                let b = moment_bound::<T>(&dr, p as u32);
                let e = err_of(m.to_f64_(), &want);
                lx.within(e, b, "C07/central-moment-nd", || format!("[{}] n-D central_moment({}) = {:?}, exact {:e}, error {:e} > bound {:e}: {:?}", T::NAME, p, m, want.to_f64(), e, b, c));
            } else {
                lx.fail("C07/central-moment-failed", || format!("n-D central_moment({}) failed on {:?}", p, c));
            }
        }
        hash_of(&obs)
    });
}

#[derive(Debug, Clone)]
struct SCase {
    n: usize,
    fill: u8,
    ty: u8,
}

/// long arrays (size thresholds) and extreme scales
fn run_sweep<T: Fl>(c: &SCase, lx: &mut Local) {
    let n = c.n;
    let u = T::U;
    // fills 0..2: ordinary scale; fills 3, 4: tiny / huge scale (skewness and kurtosis must still be representable)
    let scale = match c.fill {
        3 => {
            if T::NAME == "f32" {
                1e-8
            } else {
                1e-60
            }
        }
        4 => {
            if T::NAME == "f32" {
                1e7
            } else {
                1e60
            }
        }
        _ => 1.0,
    };
    let xs: Vec<T> = (0..n)
        .map(|i| {
            T::of(scale
                * match c.fill {
                    0 => ((i * 7919) % 1009) as f64 * 0.37 - 100.0,
                    // the first element (zero weight below) lies very far from the bulk
                    1 => 1e3 + (i % 17) as f64 * 0.1 + if i == 0 { 1e9 } else { 0.0 },
                    // small in absolute scale AND ill-conditioned (mean 0.1, spread 1e-5)
                    5 => (1e3 + (i % 17) as f64 * 0.1 + if i % 5 == 0 { 0.35 } else { 0.0 }) * 1e-4,
                    _ => ((i * i + 3 * i) % 11) as f64 - 4.0 + if i % 7 == 0 { 0.5 } else { 0.0 },
                })
        })
        .collect();
    let ws: Vec<T> = (0..n).map(|i| T::of(if i == 0 || i % 9 == 4 { 0.0 } else { 0.25 + ((i * 3) % 5) as f64 })).collect();
    let (xr, wr) = (rats(&xs), rats(&ws));
    lx.single(|lx| {
        let step = [1isize, -1, 2][(n + c.fill as usize) % 3];
        let hx = Host1::new(&xs, step, 1, T::of(777.0));
        let hw = Host1::new(&ws, -step, 1, T::of(555.0));
        let (vx, vw) = (hx.view(), hw.view());
        let mut obs = Vec::new();
        // central moments 2..4, skewness, kurtosis
        let exact: Vec<Rat> = (0..=4u32).map(|p| fl::central_moment(&xr, p)).collect();
        let bounds: Vec<f64> = (0..=4u32).map(|p| if p < 2 { 0.0 } else { moment_bound::<T>(&xr, p) }).collect();
        let small_scale = c.fill == 3;
        if !small_scale {
            match guarded(|| vx.central_moments(4)) {
                Ok(Ok(ms)) => {
                    for p in 2..=4usize {
                        if p < ms.len() {
                            let e = err_of(ms[p].to_f64_(), &exact[p]);
                            lx.within(e, bounds[p], "C07/central-moment-long", || format!("[{}] central_moments(4)[{}] of {} elements (fill {}) = {:?}, exact {:e}, error {:e} > bound {:e}", T::NAME, p, n, c.fill, ms[p], exact[p].to_f64(), e, bounds[p]));
                            obs.push(ms[p].bits_());
                        }
                    }
                }
                other => lx.fail("C07/central-moments-failed", || format!("central_moments(4) of {} elements: {:?}", n, other.map(|r| r.map(|v| v.len())))),
            }
        }
        let mu2 = exact[2].to_f64();
        if mu2 > 4.0 * bounds[2] && mu2 > 0.0 && n >= 3 {
            let (lo2, hi2) = (mu2 - bounds[2], mu2 + bounds[2]);
            for (name, p, pow) in [("skewness", 3usize, 1.5f64), ("kurtosis", 4usize, 2.0f64)] {
                let mu = exact[p].to_f64();
                let (lo, hi) = (mu - bounds[p], mu + bounds[p]);
                let cands = [lo / lo2.powf(pow), lo / hi2.powf(pow), hi / lo2.powf(pow), hi / hi2.powf(pow)];
                let mut a = cands.iter().cloned().fold(f64::INFINITY, f64::min);
                let mut b = cands.iter().cloned().fold(f64::NEG_INFINITY, f64::max);
                if !(a.is_finite() && b.is_finite()) {
                    lx.skip("skewness/kurtosis: reference interval not finite at this scale");
                    continue;
                }
                let slack = 16.0 * u * a.abs().max(b.abs()) + f64::MIN_POSITIVE;
                a -= slack;
                b += slack;
                match guarded(|| if p == 3 { vx.skewness() } else { vx.kurtosis() }) {
                    Ok(Ok(g)) => {
                        let g = g.to_f64_();
                        lx.check(a <= g && g <= b, &format!("C07/{}-long", name), || format!("[{}] {} of {} elements (fill {}, scale {:e}) = {:e}, admissible [{:e}, {:e}]", T::NAME, name, n, c.fill, scale, g, a, b));
                    }
                    other => lx.fail("C07/skew-kurt-failed", || format!("{} of {} elements: {:?}", name, n, other.map(|r| r.map(|x| x.to_f64_())))),
                }
            }
        }
        // weighted variance
        let wt = sum(wr.iter());
        if !wt.is_zero() && !small_scale && c.fill != 4 {
            let parts = fl::weighted_var_parts(&xr, &wr);
            for ddof in [0.0, 1.0] {
                let denom = &parts.w_total - &Rat::from_f64(ddof);
                if denom.is_zero() {
                    continue;
                }
                let want = &parts.s / &denom;
                let b = var_bound::<T>(&parts, n, ddof);
                match guarded(|| vx.weighted_var(&vw, T::of(ddof))) {
                    Ok(Ok(g)) => {
                        let e = err_of(g.to_f64_(), &want);
                        lx.ratio("weighted_var_long", e / b.max(f64::MIN_POSITIVE));
                        lx.within(e, b, "C07/weighted-var-long", || format!("[{}] weighted_var of {} elements (fill {}, ddof {}) = {:?}, exact {:e}, error {:e} > bound {:e}", T::NAME, n, c.fill, ddof, g, want.to_f64(), e, b));
                        obs.push(g.bits_());
                    }
                    other => lx.fail("C07/weighted-var-failed", || format!("weighted_var of {} elements: {:?}", n, other.map(|r| r.map(|x| x.to_f64_())))),
                }
            }
            // lanes of this length in a (2, n) array
            if n >= 2 && n <= 300 {
                let data: Vec<T> = (0..2 * n).map(|i| T::of(((i * 31 + c.fill as usize) % 23) as f64 * 0.5 - 3.0)).collect();
                let lay = all_layouts(2, &[1, -1])[(n + c.fill as usize) % 8].clone();
                let hd = Host::new(&[2, n], &data, &lay, T::of(777.0));
                match guarded(|| hd.view().weighted_var_axis(Axis(1), &vw, T::of(0.0))) {
                    Ok(Ok(rv)) => {
                        for (j, g) in rv.iter().enumerate() {
                            let lane: Vec<T> = data[j * n..(j + 1) * n].to_vec();
                            let parts = fl::weighted_var_parts(&rats(&lane), &wr);
                            let want = &parts.s / &parts.w_total;
                            let b = var_bound::<T>(&parts, n, 0.0);
                            let e = err_of(g.to_f64_(), &want);
                            lx.within(e, b, "C07/weighted-var-axis-long", || format!("[{}] weighted_var_axis over a lane of {} elements (lane {}) = {:?}, exact {:e}, error {:e} > bound {:e}", T::NAME, n, j, g, want.to_f64(), e, b));
                        }
                    }
                    other => lx.fail("C07/axis-failed", || format!("weighted_var_axis on (2,{}): {:?}", n, other.map(|r| r.map(|_| ())))),
                }
            }
        }
        hash_of(&obs)
    });
}

fn run_extreme<T: Fl>(xd: &[u8], wd: &[u8], xs_tab: [f64; 6], ws_tab: [f64; 4], lx: &mut Local) {
    let xs: Vec<T> = xd.iter().map(|&d| T::of(xs_tab[d as usize])).collect();
    let ws: Vec<T> = wd.iter().map(|&d| T::of(ws_tab[d as usize])).collect();
    let n = xs.len();
    let (xr, wr) = (rats(&xs), rats(&ws));
    let parts = fl::weighted_var_parts(&xr, &wr);
    lx.single(|lx| {
        let (ax, aw) = (Array1::from(xs.clone()), Array1::from(ws.clone()));
        let mut obs = Vec::new();
        for ddof in [0.0f64, 1.0] {
            let denom = &parts.w_total - &Rat::from_f64(ddof);
            if denom.is_zero() || denom.is_negative() {
                lx.skip("weighted_var: total weight not above ddof (outside the domain)");
                continue;
            }
            if denom.to_f64() < 64.0 * T::U * parts.w_total.to_f64() {
                lx.skip("weighted_var: total weight within rounding distance of ddof (outside the domain)");
                continue;
            }
            let want = &parts.s / &denom;
            let wf = want.to_f64();
            if !(wf.abs() < T::MAXF / 16.0) || !(parts.swx2.to_f64() < T::MAXF / 16.0) {
                lx.skip("weighted_var: the exact value (or the weighted sum of squares) is not representable in the element type");
                continue;
            }
            // the documented one-pass algorithm carries a running mean whose rounding error is relative to
            // the largest magnitude it passes through, max|x|, however small that element's weight: the
            // bound gets the term u * max|x| * sum w|x - mean| <= u * max|x| * sqrt(S * W)
            let xmax = xs.iter().fold(0.0f64, |m, x| m.max(x.to_f64_().abs()));
            // (plus the second-order term W * (u * max|x|)^2, which dominates when the heavy part has no spread)
            let um = (n as f64 + 4.0) * T::U * xmax;
            let stream = 8.0 * (um * (parts.s.to_f64_up_abs() * parts.w_total.to_f64()).sqrt() + um * um * parts.w_total.to_f64()) / denom.to_f64();
            let b = var_bound::<T>(&parts, n, ddof) + stream;
            match guarded(|| ax.weighted_var(&aw, T::of(ddof))) {
                Ok(Ok(g)) => {
                    let g = g.to_f64_();
                    let e = err_of(g, &want);
                    lx.ratio("weighted_var_extreme", e / b.max(f64::MIN_POSITIVE));
                    lx.within(e, b, "C07/weighted-var-extreme", || format!("[{}] weighted_var of {:?} weights {:?} ddof {} = {:e}, exact {:e}, error {:e} > bound {:e}", T::NAME, xs, ws, ddof, g, wf, e, b));
                    lx.check(g >= -b || !g.is_finite(), "C07/variance-negative", || format!("[{}] weighted_var of {:?} weights {:?} ddof {} = {:e} < -bound {:e}", T::NAME, xs, ws, ddof, g, b));
                    obs.push(g.to_bits());
                }
                other => lx.fail("C07/weighted-var-failed", || format!("[{}] weighted_var of {:?} weights {:?} ddof {}: {:?}", T::NAME, xs, ws, ddof, other.map(|r| r.map(|x| x.to_f64_())))),
            }
        }
        hash_of(&obs)
    });
}

fn main() {
    let mut rep = Report::new("C07");
    rep.rule = "case = (data array over the alphabet, offset, element type) with weight vectors x ddof x orders x strides inside; n-D: (shape, axis, layout, weights stride, fill, ddof); non-trivial = length >= 2".into();
    rep.assume("reference values in exact rational arithmetic; bounds: central moment 4(n+2p)u*mean((|x-xbar|+delta)^p) with delta=(n+2)u*mean|x| (what a corrected two-pass algorithm delivers); weighted variance 8(n+4)u(sqrt(S*sum w x^2)+S)/|W-ddof| (Chan-Golub-LeVeque bound for West's update); std/skewness/kurtosis by interval propagation");
    rep.assume("cases with zero total weight, total weight equal to ddof, or (for skewness/kurtosis) a second moment not separated from zero are outside the property's domain: skipped and counted");
    let nmax = rep.cfg.pick(5, 6);
    let mut cases: Vec<Case> = Vec::new();
    for n in 1..=nmax {
        for d in sequences(n, 7) {
            for ty in 0..2u8 {
                let no = if ty == 0 { 4 } else { 2 };
                for off in 0..no {
                    // longest length: each array at two of the offsets (all arrays still occur for both types)
                    if n >= 5 && (off as usize + d.iter().map(|&x| x as usize).sum::<usize>()) % 2 == 1 {
                        continue;
                    }
                    cases.push(Case { digits: d.clone(), off, ty });
                }
            }
        }
    }
    rep.run_sub(
        "moments-and-variance-1d",
        &format!("every array of length 1..={} over {:?} at offsets 0,1e3,1e6,1e8 (f32: 0,1e3), f64 and f32: central_moments(8), central_moment(0..=8), skewness, kurtosis on strides {{1,2,-1}}; weighted_var / weighted_std with weight vectors over {:?} (all for n<=3; rotating selection plus leading/interior/trailing-zero vectors above) x ddof {:?} x 3 stride pairs", nmax, DATA, WEIGHTS, DDOF),
        cases.into_iter(),
        |c, lx| {
            lx.nontrivial(c.digits.len() >= 2);
            if c.ty == 0 {
                run::<f64>(c, lx)
            } else {
                run::<f32>(c, lx)
            }
        },
    );
    let smax = rep.cfg.pick(1100, 4100);
    let scases = nsmc::patterns::sizes(40, smax).into_iter().filter(|&n| n >= 1).flat_map(|n| (0..6u8).flat_map(move |fill| (0..2u8).map(move |ty| SCase { n, fill, ty })));
    rep.run_sub(
        "size-sweep-and-scales",
        &format!("every length 1..=40 and block / unrolling threshold neighbourhoods up to {} x 6 fills (scattered, 1e3 offset with a zero-weight first element 1e9 away, small AND ill-conditioned data (mean 0.1, spread 1e-5), small integers with ties, the same at scale 1e-60 (f32: 1e-8) and 1e60 (f32: 1e7)) x f64/f32: central_moments(4), skewness, kurtosis, weighted_var (zero weights at the first and every 9th position; ddof 0, 1), weighted_var_axis over lanes of that length", smax),
        scases,
        |c, lx| {
            lx.nontrivial(c.n >= 2);
            if c.ty == 0 {
                run_sweep::<f64>(c, lx)
            } else {
                run_sweep::<f32>(c, lx)
            }
        },
    );
    let thorough = rep.cfg.thorough();
    let shapes: Vec<Vec<usize>> = vec![vec![1, 1], vec![1, 3], vec![3, 1], vec![2, 3], vec![3, 2], vec![3, 2, 2], vec![2, 2, 3], vec![2, 2, 2, 2], vec![2, 1, 2, 2, 2]];
    let mut ncases: Vec<NCase> = Vec::new();
    for shape in &shapes {
        let d = shape.len();
        for axis in 0..d {
            let layouts = if d <= 3 { all_layouts(d, &[1, 2, -1, -2]) } else { nsmc::layouts::covering_layouts(d, &[1, 2, -1, -2]) };
            for (li, l) in layouts.into_iter().enumerate() {
                let nf = if thorough { 12 } else { 6 };
                for fill in 0..nf {
                    ncases.push(NCase { shape: shape.clone(), axis, layout: l.clone(), wstep: [1isize, -1, 2, -3][(li + fill) % 4], fill, ddof: ((li + fill) % 3) as u8, ty: ((li + fill) % 2) as u8 });
                }
            }
        }
    }
    rep.run_sub(
        "n-dimensional",
        &format!("shapes {:?} x every axis x all layouts (4-D, 5-D: covering subset) x weights strides x {} fills x ddof rotating, f64/f32: weighted_var_axis / weighted_std_axis per lane vs exact and vs the whole-array routine; whole-array weighted_var with a same-shaped weights array in a layout of its own; whole-array central_moment(2..4)", shapes, if thorough { 12 } else { 6 }),
        ncases.into_iter(),
        |c, lx| {
            lx.nontrivial(true);
            if c.ty == 0 {
                run_nd::<f64>(c, lx)
            } else {
                run_nd::<f32>(c, lx)
            }
        },
    );
    // weights and distances many orders of magnitude apart: a light, far element next to heavy ones (the
    // running weight sum absorbs the light weight completely), squares that overflow unless the weight is
    // applied first
    let xcases = (2..=3usize).flat_map(|n| sequences(n, 6).flat_map(move |xd| sequences(n, 4).flat_map(move |wd| { let xd = xd.clone(); (0..2u8).map(move |ty| (xd.clone(), wd.clone(), ty)) })));
    rep.run_sub(
        "extreme-weight-ratios",
        "all data sequences of length 2..=3 over {0, 1, 3, +-BIG, HUGE} x all weight sequences over {TINY, SMALL, 1, LARGE} (f64: BIG 1e30, HUGE 1e200, weights 1e-160, 1e-20, 1, 1e20 - the product of two of them can underflow; f32: BIG 1e10, HUGE 2^70, weights 2^-70, 1e-10, 1, 1e10) x ddof {0, 1}: weighted_var / weighted_std against the exact value (cases whose exact value is not representable are skipped and counted), and the sign clause",
        xcases,
        |(xd, wd, ty), lx| {
            lx.nontrivial(xd.iter().any(|&d| d != xd[0]));
            if *ty == 0 {
                run_extreme::<f64>(xd, wd, [0.0, 1.0, 3.0, 1e30, -1e30, 1e200], [1e-160, 1e-20, 1.0, 1e20], lx)
            } else {
                run_extreme::<f32>(xd, wd, [0.0, 1.0, 3.0, 1e10, -1e10, 1180591620717411303424.0], [8.470329472543003e-22, 1e-10, 1.0, 1e10], lx)
            }
        },
    );
    // one negative weight (the total stays positive, as does every running sum of the documented one-pass
    // update): the definition still applies, term by term with its sign
    let ncases_neg = (2..=4usize).flat_map(|n| sequences(n, 7).flat_map(move |xd| sequences(n, 3).flat_map(move |wd| { let xd = xd.clone(); (1..n).flat_map(move |pos| { let (xd, wd) = (xd.clone(), wd.clone()); [-0.25f64, -1.0].into_iter().map(move |neg| (xd.clone(), wd.clone(), pos, neg)) }) })));
    rep.run_sub(
        "negative-weight",
        "all data sequences of length 2..=4 over the 7-value alphabet x all weight sequences over {0.25, 1, 3} with the weight at one position >= 1 replaced by -0.25 or -1 (kept when every prefix sum and the total minus ddof stay >= 0.25) x ddof {0, 0.5, 1} x f64/f32: weighted_var against the exact value of sum w (x - mean)^2 / (sum w - ddof), bound computed with |w|",
        ncases_neg,
        |(xd, wd, pos, neg), lx| {
            lx.nontrivial(xd.iter().any(|&d| d != xd[0]));
            let mut wv: Vec<f64> = wd.iter().map(|&d| [0.25, 1.0, 3.0][d as usize]).collect();
            wv[*pos] = *neg;
            let mut run = 0.0;
            let mut ok = true;
            for w in &wv {
                run += w;
                if run < 0.25 {
                    ok = false;
                }
            }
            if !ok {
                lx.skip("negative-weight: a running weight sum is not positive (the one-pass update divides by it)");
                return;
            }
            let xv: Vec<f64> = xd.iter().map(|&d| DATA[d as usize]).collect();
            for ty in 0..2 {
                let u = if ty == 0 { <f64 as Fl>::U } else { <f32 as Fl>::U };
                // values are exactly representable in f32 as well, except 0.1 (rounded consistently below)
                let (xs64, ws64): (Vec<f64>, Vec<f64>) = if ty == 0 { (xv.clone(), wv.clone()) } else { (xv.iter().map(|&x| x as f32 as f64).collect(), wv.clone()) };
                let (xr, wr) = (rats(&xs64), rats(&ws64));
                let parts = fl::weighted_var_parts(&xr, &wr);
                let wabs: Vec<f64> = ws64.iter().map(|w| w.abs()).collect();
                // |w|-weighted sums around the true mean for the bound
                let mut s_abs = Rat::zero();
                let mut swx2_abs = Rat::zero();
                for (x, w) in xr.iter().zip(rats(&wabs).iter()) {
                    let d = x - &parts.mean;
                    s_abs = &s_abs + &(w * &(&d * &d));
                    swx2_abs = &swx2_abs + &(w * &(x * x));
                }
                for ddof in [0.0f64, 0.5, 1.0] {
                    let denom = &parts.w_total - &Rat::from_f64(ddof);
                    if denom.to_f64() < 0.25 {
                        lx.skip("negative-weight: total weight minus ddof below 0.25");
                        continue;
                    }
                    let want = &parts.s / &denom;
                    let n = xs64.len();
                    let (sa, qa) = (s_abs.to_f64_up_abs(), swx2_abs.to_f64_up_abs());
                    let b = 32.0 * (n as f64 + 4.0) * u * ((sa * qa).sqrt() * (1.0 + 1e-9) + sa) / denom.to_f64();
                    lx.single(|lx| {
                        let got = if ty == 0 {
                            guarded(|| Array1::from(xs64.clone()).weighted_var(&Array1::from(ws64.clone()), ddof)).map(|r| r.map(|g| g))
                        } else {
                            guarded(|| Array1::from(xs64.iter().map(|&x| x as f32).collect::<Vec<f32>>()).weighted_var(&Array1::from(ws64.iter().map(|&w| w as f32).collect::<Vec<f32>>()), ddof as f32)).map(|r| r.map(|g| g as f64))
                        };
                        match got {
                            Ok(Ok(g)) => {
                                let e = err_of(g, &want);
                                lx.ratio("weighted_var_negative_weight", e / b.max(f64::MIN_POSITIVE));
                                lx.within(e, b, "C07/weighted-var-negative-weight", || format!("[{}] weighted_var of {:?} weights {:?} ddof {} = {:e}, exact {:e}, error {:e} > bound {:e}", if ty == 0 { "f64" } else { "f32" }, xs64, ws64, ddof, g, want.to_f64(), e, b));
                                g.to_bits()
                            }
                            other => {
                                lx.fail("C07/weighted-var-failed", || format!("weighted_var of {:?} weights {:?} ddof {}: {:?}", xs64, ws64, ddof, other));
                                0
                            }
                        }
                    });
                }
            }
        },
    );
    // data and weights that are views of one buffer
    let acases = (3..=5usize)
        .flat_map(|m| sequences(m, 4).flat_map(move |d| (0..4u8).map(move |kind| (d.clone(), kind))))
        .chain(sequences(9, 3).map(|d| (d, 4u8)));
    rep.run_sub(
        "aliasing-operands",
        "data and weights are views of ONE buffer of positive values: all sequences over {0.5, 1, 2, 3} of length 3..=5 as (buf[..n], buf[..2n-1;2]), overlapping windows, a buffer against its reversed view and against itself; every 3x3 matrix over 3 values with its own first column / row as the weights of weighted_var_axis; ddof {0, 0.5, 1}; f64 against the exact value",
        acases,
        |(digits, kind), lx| {
            lx.nontrivial(digits.iter().any(|&d| d != digits[0]));
            const V: [f64; 4] = [0.5, 1.0, 2.0, 3.0];
            let buf: Vec<f64> = digits.iter().map(|&d| V[d as usize]).collect();
            let m = buf.len();
            lx.single(|lx| {
                let arr = Array1::from(buf.clone());
                let mut obs: Vec<u64> = Vec::new();
                let mut judge = |what: String, xs: Vec<f64>, ws: Vec<f64>, ddof: f64, got: Result<Result<f64, ndarray_stats::errors::MultiInputError>, String>, lx: &mut Local| {
                    let parts = fl::weighted_var_parts(&rats(&xs), &rats(&ws));
                    let denom = &parts.w_total - &Rat::from_f64(ddof);
                    if denom.is_zero() {
                        lx.skip("weighted_var: total weight equals ddof (division by zero, outside the domain)");
                        return;
                    }
                    let want = &parts.s / &denom;
                    let b = var_bound::<f64>(&parts, xs.len(), ddof);
                    match got {
                        Ok(Ok(g)) => {
                            let e = err_of(g, &want);
                            lx.within(e, b, "C07/weighted-var-aliasing", || format!("{} (ddof {}): {:e}, exact {:e} (data {:?}, weights {:?})", what, ddof, g, want.to_f64(), xs, ws));
                            obs.push(g.to_bits());
                        }
                        other => lx.fail("C07/weighted-var-failed", || format!("{} (ddof {}): {:?}", what, ddof, other)),
                    }
                };
                for ddof in [0.0, 0.5, 1.0] {
                    match kind {
                        0 => {
                            let n = (m + 1) / 2;
                            let (x, w) = (arr.slice(ndarray::s![..n]), arr.slice(ndarray::s![..2 * n - 1;2]));
                            judge(format!("weighted_var of buf[..{}] with weights buf[..{};2]", n, 2 * n - 1), x.to_vec(), w.to_vec(), ddof, guarded(|| x.weighted_var(&w, ddof)), lx);
                            judge(format!("weighted_var of buf[..{};2] with weights buf[..{}]", 2 * n - 1, n), w.to_vec(), x.to_vec(), ddof, guarded(|| w.weighted_var(&x, ddof)), lx);
                        }
                        1 => {
                            let (x, w) = (arr.slice(ndarray::s![..m - 1]), arr.slice(ndarray::s![1..]));
                            judge("weighted_var over overlapping windows buf[..m-1] / buf[1..]".into(), x.to_vec(), w.to_vec(), ddof, guarded(|| x.weighted_var(&w, ddof)), lx);
                        }
                        2 => {
                            let (x, w) = (arr.view(), arr.slice(ndarray::s![..;-1]));
                            judge("weighted_var of a buffer with its reversed view as weights".into(), x.to_vec(), w.to_vec(), ddof, guarded(|| x.weighted_var(&w, ddof)), lx);
                        }
                        3 => {
                            let x = arr.view();
                            judge("weighted_var of a buffer with itself as weights".into(), x.to_vec(), x.to_vec(), ddof, guarded(|| x.weighted_var(&x, ddof)), lx);
                        }
                        _ => {
                            let sq = Array2::from_shape_vec((3, 3), buf[..9].to_vec()).unwrap();
                            for axis in 0..2usize {
                                let wl = if axis == 0 { sq.column(0) } else { sq.row(0) };
                                let r = guarded(|| sq.view().weighted_var_axis(Axis(axis), &wl, ddof));
                                for j in 0..3usize {
                                    let lane: Vec<f64> = (0..3).map(|t| if axis == 0 { sq[[t, j]] } else { sq[[j, t]] }).collect();
                                    let pick = match &r {
                                        Ok(Ok(a)) if a.len() == 3 => Ok(Ok(a[j])),
                                        Ok(Ok(a)) => Err(format!("result has {} entries", a.len())),
                                        Ok(Err(e)) => Ok(Err(e.clone())),
                                        Err(msg) => Err(msg.clone()),
                                    };
                                    judge(format!("weighted_var_axis({}) of a 3x3 matrix with its own first {} as weights, lane {}", axis, if axis == 0 { "column" } else { "row" }, j), lane, wl.to_vec(), ddof, pick, lx);
                                }
                            }
                        }
                    }
                }
                hash_of(&obs)
            });
        },
    );
    rep.finish();
}
