//! C09 — deviation measures are exact counts and distances, paired by logical index.
use ndarray::prelude::*;
use ndarray::{CowArray, Data, Dimension, IxDyn};
use ndarray_stats::DeviationExt;
use nsmc::exact::Rat;
use nsmc::layouts::{all_layouts, covering_layouts, Host, Host1, Layout};
use nsmc::patterns::sequences;
use nsmc::*;
use num_bigint::BigInt;
use num_traits::{Signed, ToPrimitive};
use std::fmt::Debug;
use std::ops::AddAssign;

trait DevElem: Clone + PartialEq + PartialOrd + Signed + AddAssign + ToPrimitive + Debug + Send + Sync + 'static {
    const NAME: &'static str;
    const IS_FLOAT: bool;
    fn mk(d: u8) -> Self;
    fn rat(&self) -> Rat;
    /// a second peak value for the signal-to-noise ratio: one that f32 cannot hold exactly
    fn peak2() -> Self {
        Self::mk(3)
    }
}
impl DevElem for i32 {
    const NAME: &'static str = "i32";
    const IS_FLOAT: bool = false;
    fn mk(d: u8) -> i32 {
        [-3, 0, 1, 4][d as usize]
    }
    fn peak2() -> i32 {
        16_777_217
    }
    fn rat(&self) -> Rat {
        Rat::from_i(*self as i128)
    }
}
impl DevElem for i64 {
    const NAME: &'static str = "i64";
    const IS_FLOAT: bool = false;
    fn mk(d: u8) -> i64 {
        [-3_000_000, 0, 1, 4_000_000][d as usize]
    }
    fn peak2() -> i64 {
        4_000_000_001
    }
    fn rat(&self) -> Rat {
        Rat::from_i(*self as i128)
    }
}
impl DevElem for f64 {
    const NAME: &'static str = "f64";
    const IS_FLOAT: bool = true;
    fn mk(d: u8) -> f64 {
        [-1.5, 0.0, 0.1, 2.0][d as usize]
    }
    fn peak2() -> f64 {
        0.1
    }
    fn rat(&self) -> Rat {
        Rat::from_f64(*self)
    }
}
impl DevElem for BigInt {
    const NAME: &'static str = "BigInt";
    const IS_FLOAT: bool = false;
    fn mk(d: u8) -> BigInt {
        [BigInt::from(-3), BigInt::from(0), BigInt::from(1), BigInt::from(1u64 << 40) * BigInt::from(1u64 << 40)][d as usize].clone()
    }
    fn rat(&self) -> Rat {
        Rat::from_big(self.clone())
    }
}

#[derive(Debug)]
struct Measures<A> {
    count_eq: usize,
    count_neq: usize,
    sq_l2: A,
    l1: A,
    linf: A,
    l2: f64,
    mae: f64,
    mse: f64,
    rmse: f64,
    psnr: f64,
}

fn measure<A: DevElem, S1: Data<Elem = A>, S2: Data<Elem = A>, D: Dimension>(a: &ArrayBase<S1, D>, b: &ArrayBase<S2, D>, maxv: A) -> Result<Measures<A>, String> {
    let r = guarded(|| -> Result<Measures<A>, ndarray_stats::errors::MultiInputError> {
        Ok(Measures {
            count_eq: a.count_eq(b)?,
            count_neq: a.count_neq(b)?,
            sq_l2: a.sq_l2_dist(b)?,
            l1: a.l1_dist(b)?,
            linf: a.linf_dist(b)?,
            l2: a.l2_dist(b)?,
            mae: a.mean_abs_err(b)?,
            mse: a.mean_sq_err(b)?,
            rmse: a.root_mean_sq_err(b)?,
            psnr: a.peak_signal_to_noise_ratio(b, maxv)?,
        })
    });
    match r {
        Ok(Ok(m)) => Ok(m),
        Ok(Err(e)) => Err(format!("returned Err({:?})", e)),
        Err(p) => Err(format!("panicked: {}", p)),
    }
}

struct Want {
    count_eq: usize,
    n: usize,
    sq_l2: Rat,
    l1: Rat,
    linf: Rat,
}

fn want_of<A: DevElem>(a: &[A], b: &[A]) -> Want {
    let mut w = Want { count_eq: 0, n: a.len(), sq_l2: Rat::zero(), l1: Rat::zero(), linf: Rat::zero() };
    for (x, y) in a.iter().zip(b) {
        if x == y {
            w.count_eq += 1;
        }
        let d = &x.rat() - &y.rat();
        w.sq_l2 = &w.sq_l2 + &(&d * &d);
        w.l1 = &w.l1 + &d.abs();
        if d.abs() > w.linf {
            w.linf = d.abs();
        }
    }
    w
}

fn close(got: f64, want: f64, rel: f64) -> bool {
    if want.is_infinite() || got.is_infinite() {
        return got == want;
    }
    if want.is_nan() {
        return got.is_nan();
    }
    (got - want).abs() <= rel * want.abs() + f64::MIN_POSITIVE
}

fn judge<A: DevElem>(m: &Measures<A>, w: &Want, maxv: &A, ctx: &dyn Fn() -> String, lx: &mut Local) -> u64 {
    let n = w.n as f64;
    let u = f64::EPSILON / 2.0;
    lx.check(m.count_eq == w.count_eq, "C09/count-eq", || format!("[{}] count_eq = {}, expected {}; {}", A::NAME, m.count_eq, w.count_eq, ctx()));
    lx.check(m.count_eq + m.count_neq == w.n, "C09/count-sum", || format!("[{}] count_eq {} + count_neq {} != {} elements; {}", A::NAME, m.count_eq, m.count_neq, w.n, ctx()));
    // relative slack of the three base sums
    let rel = if A::IS_FLOAT { 4.0 * (n + 2.0) * u } else { 0.0 };
    let base_ok = |got: &A, want: &Rat| -> bool {
        if A::IS_FLOAT {
            let g = got.to_f64().unwrap();
            nsmc::fl::err_of(g, want) <= rel * want.to_f64_up_abs() + f64::MIN_POSITIVE * 0.0
        } else {
            got.rat() == *want
        }
    };
    lx.check(base_ok(&m.sq_l2, &w.sq_l2), "C09/sq-l2", || format!("[{}] sq_l2_dist = {:?}, exact {:e}; {}", A::NAME, m.sq_l2, w.sq_l2.to_f64(), ctx()));
    lx.check(base_ok(&m.l1, &w.l1), "C09/l1", || format!("[{}] l1_dist = {:?}, exact {:e}; {}", A::NAME, m.l1, w.l1.to_f64(), ctx()));
    lx.check(base_ok(&m.linf, &w.linf), "C09/linf", || format!("[{}] linf_dist = {:?}, exact {:e}; {}", A::NAME, m.linf, w.linf.to_f64(), ctx()));
    let r2 = rel + 8.0 * u;
    let sq = w.sq_l2.to_f64();
    let l1 = w.l1.to_f64();
    lx.check(close(m.l2, sq.sqrt(), r2), "C09/l2", || format!("[{}] l2_dist = {:e}, expected sqrt({:e}); {}", A::NAME, m.l2, sq, ctx()));
    lx.check(close(m.mae, l1 / n, r2), "C09/mean-abs-err", || format!("[{}] mean_abs_err = {:e}, expected {:e}/{}; {}", A::NAME, m.mae, l1, n, ctx()));
    lx.check(close(m.mse, sq / n, r2), "C09/mean-sq-err", || format!("[{}] mean_sq_err = {:e}, expected {:e}/{}; {}", A::NAME, m.mse, sq, n, ctx()));
    lx.check(close(m.rmse, (sq / n).sqrt(), r2), "C09/root-mean-sq-err", || format!("[{}] root_mean_sq_err = {:e}, expected sqrt({:e}/{}); {}", A::NAME, m.rmse, sq, n, ctx()));
    let mv = maxv.to_f64().unwrap();
    let psnr = 10.0 * (mv * mv / (sq / n)).log10();
    // log10 amplifies relative error of its argument additively: absolute tolerance
    let ptol = 10.0 * (r2 + 4.0 * u) / std::f64::consts::LN_10 + 16.0 * u * psnr.abs();
    let pok = if psnr.is_infinite() || m.psnr.is_infinite() { psnr == m.psnr } else { (m.psnr - psnr).abs() <= ptol };
    lx.check(pok, "C09/psnr", || format!("[{}] peak_signal_to_noise_ratio = {:e}, expected 10 log10({:e}^2/{:e}) = {:e}; {}", A::NAME, m.psnr, mv, sq / n, psnr, ctx()));
    hash_of(&(m.count_eq, m.l2.to_bits(), m.psnr.to_bits(), m.mae.to_bits()))
}

#[derive(Debug, Clone)]
struct Case1 {
    a: Vec<u8>,
    b: Vec<u8>,
    ty: u8,
}

const STRIDE_PAIRS: [(isize, isize); 6] = [(1, 1), (1, -1), (2, 1), (-1, 2), (3, -2), (-2, -1)];

fn run1<A: DevElem>(c: &Case1, lx: &mut Local) {
    let a: Vec<A> = c.a.iter().map(|&d| A::mk(d)).collect();
    let b: Vec<A> = c.b.iter().map(|&d| A::mk(d)).collect();
    let w = want_of(&a, &b);
    let maxv = A::mk(3);
    let salt = c.a.iter().chain(c.b.iter()).fold(0usize, |s, &d| s * 5 + d as usize);
    let (sa, sb) = STRIDE_PAIRS[salt % STRIDE_PAIRS.len()];
    lx.single(|lx| {
        let ha = Host1::new(&a, sa, 1, A::mk(2));
        let hb = Host1::new(&b, sb, 2, A::mk(0));
        let ctx = || format!("a = {:?} (stride {}), b = {:?} (stride {})", a, sa, b, sb);
        let mut h = 0;
        match measure(&ha.view(), &hb.view(), maxv.clone()) {
            Ok(m) => h = judge(&m, &w, &maxv, &ctx, lx),
            Err(e) => lx.fail("C09/failed", || format!("[{}] {}; {}", A::NAME, e, ctx())),
        }
        // the same with a peak value that is not exactly representable in f32
        let peak2 = A::peak2();
        match measure(&ha.view(), &hb.view(), peak2.clone()) {
            Ok(m) => h ^= judge(&m, &w, &peak2, &ctx, lx).rotate_left(7),
            Err(e) => lx.fail("C09/failed", || format!("[{}] {}; {}", A::NAME, e, ctx())),
        }
        // symmetry
        if let (Ok(m1), Ok(m2)) = (measure(&ha.view(), &hb.view(), maxv.clone()), measure(&hb.view(), &ha.view(), maxv.clone())) {
            let same = if A::IS_FLOAT {
                let u = f64::EPSILON;
                let t = |x: &A, y: &A| (x.to_f64().unwrap() - y.to_f64().unwrap()).abs() <= 8.0 * u * x.to_f64().unwrap().abs();
                t(&m1.sq_l2, &m2.sq_l2) && t(&m1.l1, &m2.l1) && t(&m1.linf, &m2.linf) && m1.count_eq == m2.count_eq
            } else {
                m1.sq_l2 == m2.sq_l2 && m1.l1 == m2.l1 && m1.linf == m2.linf && m1.count_eq == m2.count_eq && m1.l2 == m2.l2 && m1.mae == m2.mae && m1.mse == m2.mse && m1.rmse == m2.rmse
            };
            lx.check(same, "C09/asymmetric", || format!("[{}] d(a,b) = {:?} but d(b,a) = {:?}; {}", A::NAME, m1, m2, ctx()));
        }
        // identity
        if c.a == c.b {
            if let Ok(m) = measure(&ha.view(), &hb.view(), maxv.clone()) {
                let z = A::zero();
                lx.check(m.sq_l2 == z && m.l1 == z && m.linf == z && m.l2 == 0.0 && m.mae == 0.0 && m.mse == 0.0 && m.rmse == 0.0 && m.count_neq == 0, "C09/identical-not-zero", || format!("[{}] distances of identical arrays: {:?}; {}", A::NAME, m, ctx()));
            }
        }
        h
    });
}

#[derive(Debug, Clone)]
struct CaseN {
    shape: Vec<usize>,
    la: Layout,
    lb: Layout,
    fill: usize,
    own: (u8, u8),
    ty: u8,
}

/// Builds an operand of the requested ownership kind and passes it on.
macro_rules! with_operand {
    ($kind:expr, $host:expr, $name:ident, $body:expr) => {{
        match $kind {
            0 => {
                let $name = $host.view();
                $body
            }
            1 => {
                let mut hm = $host;
                let $name = hm.view_mut();
                $body
            }
            2 => {
                let $name = $host.into_owned_layout();
                $body
            }
            3 => {
                let $name = $host.into_owned_layout().into_shared();
                $body
            }
            4 => {
                let hv = $host;
                let $name = CowArray::from(hv.view());
                $body
            }
            _ => {
                let $name = CowArray::from($host.into_owned_layout());
                $body
            }
        }
    }};
}

fn runn<A: DevElem>(c: &CaseN, lx: &mut Local) {
    let n: usize = c.shape.iter().product();
    // asymmetric fills: pairing by memory order instead of logical index changes every measure
    let a: Vec<A> = (0..n).map(|i| A::mk(((i * (c.fill + 1) + c.fill) % 4) as u8)).collect();
    let b: Vec<A> = (0..n).map(|i| A::mk(((i * i + 2 * c.fill + i / 2) % 4) as u8)).collect();
    let w = want_of(&a, &b);
    let maxv = A::mk(3);
    lx.single(|lx| {
        let ha = Host::new(&c.shape, &a, &c.la, A::mk(2));
        let hb = Host::new(&c.shape, &b, &c.lb, A::mk(0));
        let ctx = || format!("a = {:?}, b = {:?} (logical C order), {:?}", a, b, c);
        let r = with_operand!(c.own.0, ha, oa, with_operand!(c.own.1, hb, ob, {
            // static dimensionality for 2-D, dynamic otherwise (and both for owned x owned)
            measure(&oa, &ob, maxv.clone())
        }));
        match r {
            Ok(m) => judge(&m, &w, &maxv, &ctx, lx),
            Err(e) => {
                lx.fail("C09/failed", || format!("[{}] {}; {}", A::NAME, e, ctx()));
                0
            }
        }
    });
    // static dimensionality variant (views)
    if c.shape.len() == 2 {
        lx.single(|lx| {
            let ha = Host::new(&c.shape, &a, &c.la, A::mk(2));
            let hb = Host::new(&c.shape, &b, &c.lb, A::mk(0));
            let va = ha.view().into_dimensionality::<Ix2>().unwrap();
            let vb = hb.view().into_dimensionality::<Ix2>().unwrap();
            let ctx = || format!("Ix2: a = {:?}, b = {:?}, {:?}", a, b, c);
            match measure(&va, &vb, maxv.clone()) {
                Ok(m) => judge(&m, &w, &maxv, &ctx, lx),
                Err(e) => {
                    lx.fail("C09/failed", || format!("[{}] {}; {}", A::NAME, e, ctx()));
                    0
                }
            }
        });
    }
    let _ = IxDyn(&[]);
}

#[derive(Debug, Clone)]
struct AliasCase {
    digits: Vec<u8>,
    kind: u8,
    ty: u8,
}

/// Both operands are views into ONE buffer (same first element and same shape, different strides;
/// a square matrix and its own transpose; overlapping windows).
fn run_alias<A: DevElem>(c: &AliasCase, lx: &mut Local) {
    let buf: Vec<A> = c.digits.iter().map(|&d| A::mk(d)).collect();
    let arr = Array1::from(buf.clone());
    let maxv = A::mk(3);
    lx.single(|lx| {
        let m = buf.len();
        let h;
        match c.kind {
            0 => {
                // a = buf[..n], b = buf[..2n-1;2]: same start, same length, stride 1 vs 2
                let n = (m + 1) / 2;
                let a = arr.slice(ndarray::s![..n]);
                let b = arr.slice(ndarray::s![..2 * n - 1;2]);
                let (la, lb): (Vec<A>, Vec<A>) = (a.to_vec(), b.to_vec());
                let w = want_of(&la, &lb);
                let ctx = || format!("both operands view one buffer {:?}: a = buf[..{}], b = buf[..{};2]", buf, n, 2 * n - 1);
                h = match measure(&a, &b, maxv.clone()) {
                    Ok(ms) => judge(&ms, &w, &maxv, &ctx, lx),
                    Err(e) => {
                        lx.fail("C09/failed", || format!("[{}] {}; {}", A::NAME, e, ctx()));
                        0
                    }
                };
            }
            1 => {
                // overlapping windows: a = buf[..m-1], b = buf[1..]
                let a = arr.slice(ndarray::s![..m - 1]);
                let b = arr.slice(ndarray::s![1..]);
                let w = want_of(&a.to_vec(), &b.to_vec());
                let ctx = || format!("overlapping windows of one buffer {:?}: a = buf[..{}], b = buf[1..]", buf, m - 1);
                h = match measure(&a, &b, maxv.clone()) {
                    Ok(ms) => judge(&ms, &w, &maxv, &ctx, lx),
                    Err(e) => {
                        lx.fail("C09/failed", || format!("[{}] {}; {}", A::NAME, e, ctx()));
                        0
                    }
                };
            }
            2 => {
                // a = buf, b = buf reversed (same cells, opposite direction)
                let a = arr.view();
                let b = arr.slice(ndarray::s![..;-1]);
                let w = want_of(&a.to_vec(), &b.to_vec());
                let ctx = || format!("one buffer {:?} against its own reversed view", buf);
                h = match measure(&a, &b, maxv.clone()) {
                    Ok(ms) => judge(&ms, &w, &maxv, &ctx, lx),
                    Err(e) => {
                        lx.fail("C09/failed", || format!("[{}] {}; {}", A::NAME, e, ctx()));
                        0
                    }
                };
            }
            _ => {
                // square matrix against its own transpose
                let k = (m as f64).sqrt() as usize;
                let sq = Array2::from_shape_vec((k, k), buf[..k * k].to_vec()).unwrap();
                let a = sq.view();
                let b = sq.t();
                let la: Vec<A> = a.iter().cloned().collect();
                let lb: Vec<A> = b.iter().cloned().collect();
                let w = want_of(&la, &lb);
                let ctx = || format!("a {}x{} matrix {:?} against its own transpose", k, k, la);
                h = match measure(&a, &b, maxv.clone()) {
                    Ok(ms) => judge(&ms, &w, &maxv, &ctx, lx),
                    Err(e) => {
                        lx.fail("C09/failed", || format!("[{}] {}; {}", A::NAME, e, ctx()));
                        0
                    }
                };
            }
        }
        h
    });
}

#[derive(Debug, Clone)]
struct SizeCase {
    n: usize,
    fill: u8,
    ty: u8,
}

trait FromI {
    fn from_i(v: i64) -> Self;
}
impl FromI for i32 {
    fn from_i(v: i64) -> i32 {
        v as i32
    }
}
impl FromI for i64 {
    fn from_i(v: i64) -> i64 {
        v
    }
}
impl FromI for f64 {
    fn from_i(v: i64) -> f64 {
        v as f64 * 0.1
    }
}
impl FromI for BigInt {
    fn from_i(v: i64) -> BigInt {
        BigInt::from(v)
    }
}

/// long operands (size thresholds) and a peak value whose square does not fit the element type
fn run_size<A: DevElem + FromI>(c: &SizeCase, lx: &mut Local) {
    let n = c.n;
    let a: Vec<A> = (0..n).map(|i| A::from_i(((i * 7 + c.fill as usize) % 23) as i64 - 11)).collect();
    let b: Vec<A> = (0..n)
        .map(|i| {
            A::from_i(match c.fill {
                // equal leading elements, then differences everywhere / only at sparse positions / only at the last position
                0 => ((i * 7) % 23) as i64 - 11 + if i >= 2 { ((i * 5) % 7) as i64 - 3 } else { 0 },
                1 => ((i * 7 + 1) % 23) as i64 - 11 + if i % 64 == 63 || i % 128 == 0 { 9 } else { 0 },
                _ => ((i * 7 + 2) % 23) as i64 - 11 + if i + 1 == n { 5 } else { 0 },
            })
        })
        .collect();
    let w = want_of(&a, &b);
    // peak value: large for the fixed-width integer types (its square exceeds the type's range)
    let maxv = A::from_i(if A::NAME == "i32" { 65535 } else if A::NAME == "i64" { 4_000_000_000 } else { 255 });
    lx.single(|lx| {
        let sa = [1isize, -1, 2][(n + c.fill as usize) % 3];
        let ha = Host1::new(&a, sa, 1, A::from_i(7));
        let hb = Host1::new(&b, -sa, 1, A::from_i(-7));
        let ctx = || format!("operands of {} elements (fill {}, strides {} / {}), maxv {:?}", n, c.fill, sa, -sa, maxv);
        match measure(&ha.view(), &hb.view(), maxv.clone()) {
            Ok(m) => judge(&m, &w, &maxv, &ctx, lx),
            Err(e) => {
                lx.fail("C09/failed", || format!("[{}] {}; {}", A::NAME, e, ctx()));
                0
            }
        }
    });
}

impl DevElem for i128 {
    const NAME: &'static str = "i128";
    const IS_FLOAT: bool = false;
    fn mk(d: u8) -> i128 {
        [-3, 0, 1, 4][d as usize]
    }
    fn rat(&self) -> Rat {
        Rat::from_i(*self)
    }
}

/// large values that are close to each other: the differences are small and exact, the values themselves
/// are beyond 2^53 (integers) or ill-conditioned (floats around 1e8 differing by 1e-3, or by 1e-9)
fn run_close(c: &(usize, u8, u8), lx: &mut Local) {
    let (n, fill, ty) = *c;
    lx.nontrivial(true);
    macro_rules! go {
        ($t:ty, $base:expr, $mk:expr, $maxv:expr) => {{
            let a: Vec<$t> = (0..n).map(|i| $mk($base, ((i * 5 + fill as usize) % 7) as i64 - 3)).collect();
            let b: Vec<$t> = (0..n).map(|i| $mk($base, ((i * 3 + 2 * fill as usize) % 5) as i64 - 2)).collect();
            let w = want_of(&a, &b);
            let maxv: $t = $maxv;
            lx.single(|lx| {
                let ha = Host1::new(&a, if n % 2 == 0 { 1 } else { -1 }, 1, a[0].clone());
                let hb = Host1::new(&b, 2, 1, b[0].clone());
                let ctx = || format!("a = {:?}, b = {:?}", a, b);
                match measure(&ha.view(), &hb.view(), maxv.clone()) {
                    Ok(m) => judge(&m, &w, &maxv, &ctx, lx),
                    Err(e) => {
                        lx.fail("C09/failed", || format!("[{}] {}; {}", <$t as DevElem>::NAME, e, ctx()));
                        0
                    }
                }
            });
        }};
    }
    match ty {
        0 => go!(i64, 1i64 << 60, |b: i64, k: i64| b + k * 3, 255i64),
        1 => go!(i128, 1i128 << 100, |b: i128, k: i64| b + k as i128 * 3, 255i128),
        2 => go!(BigInt, BigInt::from(1u64 << 40) * BigInt::from(1u64 << 40), |b: BigInt, k: i64| b + BigInt::from(k * 3), BigInt::from(255)),
        3 => go!(f64, 1e8f64, |b: f64, k: i64| b + k as f64 * 1e-3, 2e8f64),
        _ => go!(f64, 0.5f64, |b: f64, k: i64| b + k as f64 * 1e-9, 1.0f64),
    }
}

/// IEEE semantics of the documented formulas on infinite elements and overflowing squares: all terms
/// of the sums are non-negative (or NaN), so the result is NaN iff a term is NaN, +inf iff a term or
/// the sum overflows, whatever the order of summation.
fn run_nonfinite<T: num_traits::Float + Debug + std::ops::AddAssign + num_traits::Signed + Send + Sync + 'static>(da: &[u8], db: &[u8], name: &str, big: T, lx: &mut Local) {
    let tab = [T::zero(), T::one(), big, -big, T::infinity(), T::neg_infinity()];
    let a: Vec<T> = da.iter().map(|&d| tab[d as usize]).collect();
    let b: Vec<T> = db.iter().map(|&d| tab[d as usize]).collect();
    let n = T::from(a.len()).unwrap();
    lx.single(|lx| {
        let (aa, ab) = (Array1::from(a.clone()), Array1::from(b.clone()));
        let d: Vec<T> = a.iter().zip(&b).map(|(x, y)| *x - *y).collect();
        let any_nan = d.iter().any(|x| x.is_nan());
        let sq = d.iter().fold(T::zero(), |s, x| s + *x * *x);
        let l1 = d.iter().fold(T::zero(), |s, x| s + x.abs());
        let same = |got: T, want: T| -> bool {
            if want.is_nan() {
                got.is_nan()
            } else if want.is_infinite() || got.is_infinite() || got.is_nan() {
                got == want
            } else {
                (got - want).abs() <= want.abs() * T::epsilon() * T::from(16.0).unwrap()
            }
        };
        let ctx = || format!("[{}] a = {:?}, b = {:?}", name, a, b);
        let mut obs = Vec::new();
        let r = guarded(|| (aa.sq_l2_dist(&ab), aa.l1_dist(&ab), aa.linf_dist(&ab), aa.l2_dist(&ab), aa.mean_abs_err(&ab), aa.mean_sq_err(&ab), aa.root_mean_sq_err(&ab), aa.peak_signal_to_noise_ratio(&ab, T::one())));
        match r {
            Err(m) => lx.fail("C09/failed", || format!("panicked: {}; {}", m, ctx())),
            Ok((Ok(gsq), Ok(gl1), Ok(glinf), Ok(gl2), Ok(gmae), Ok(gmse), Ok(grmse), Ok(gpsnr))) => {
                lx.check(same(gsq, sq), "C09/sq-l2", || format!("sq_l2_dist = {:?}, expected {:?}; {}", gsq, sq, ctx()));
                lx.check(same(gl1, l1), "C09/l1", || format!("l1_dist = {:?}, expected {:?}; {}", gl1, l1, ctx()));
                if !any_nan {
                    let linf = d.iter().fold(T::zero(), |m, x| if x.abs() > m { x.abs() } else { m });
                    lx.check(same(glinf, linf), "C09/linf", || format!("linf_dist = {:?}, expected {:?}; {}", glinf, linf, ctx()));
                }
                let sq64 = sq.to_f64().unwrap();
                let l164 = l1.to_f64().unwrap();
                let n64 = n.to_f64().unwrap();
                let same64 = |got: f64, want: f64| -> bool {
                    if want.is_nan() {
                        got.is_nan()
                    } else if want.is_infinite() || !got.is_finite() {
                        got == want
                    } else {
                        (got - want).abs() <= want.abs() * 1e-6 + 1e-300
                    }
                };
                lx.check(same64(gl2, sq64.sqrt()), "C09/l2", || format!("l2_dist = {:?}, expected sqrt({:?}); {}", gl2, sq64, ctx()));
                lx.check(same64(gmae, l164 / n64), "C09/mean-abs-err", || format!("mean_abs_err = {:?}, expected {:?}/{}; {}", gmae, l164, n64, ctx()));
                lx.check(same64(gmse, sq64 / n64), "C09/mean-sq-err", || format!("mean_sq_err = {:?}, expected {:?}/{}; {}", gmse, sq64, n64, ctx()));
                lx.check(same64(grmse, (sq64 / n64).sqrt()), "C09/root-mean-sq-err", || format!("root_mean_sq_err = {:?}; {}", grmse, ctx()));
                let psnr = 10.0 * (1.0 / (sq64 / n64)).log10();
                lx.check(same64(gpsnr, psnr), "C09/psnr", || format!("peak_signal_to_noise_ratio = {:?}, expected {:?}; {}", gpsnr, psnr, ctx()));
                obs.push((gsq.to_f64().unwrap().to_bits(), gl1.to_f64().unwrap().to_bits(), gpsnr.to_bits()));
            }
            Ok(other) => lx.fail("C09/failed", || format!("an error was returned: {:?}; {}", other.0.is_ok(), ctx())),
        }
        hash_of(&obs)
    });
}

/// Very long operands (stride-0 broadcast views, so no memory is needed): counts beyond 2^16 and
/// element counts that f32 cannot hold exactly.
fn run_long(n: usize, lx: &mut Local) {
    lx.single(|lx| {
        let (one, zero) = (ndarray::arr0(1.0f64), ndarray::arr0(0.0f64));
        let (a, b) = (one.broadcast(n).unwrap(), zero.broadcast(n).unwrap());
        let (ione, izero) = (ndarray::arr0(1i64), ndarray::arr0(0i64));
        let (ia, ib) = (ione.broadcast(n).unwrap(), izero.broadcast(n).unwrap());
        let nf = n as f64;
        let r = guarded(|| (a.count_eq(&a), a.count_eq(&b), a.count_neq(&b), a.sq_l2_dist(&b), a.l1_dist(&b), a.linf_dist(&b), a.mean_abs_err(&b), a.mean_sq_err(&b), a.root_mean_sq_err(&b), a.peak_signal_to_noise_ratio(&b, 10.0), ia.count_eq(&ia), ia.sq_l2_dist(&ib)));
        match r {
            Ok((Ok(ceq_self), Ok(ceq), Ok(cneq), Ok(sq), Ok(l1), Ok(linf), Ok(mae), Ok(mse), Ok(rmse), Ok(psnr), Ok(iceq), Ok(isq))) => {
                lx.check(ceq_self == n && ceq == 0 && cneq == n && iceq == n, "C09/count-eq", || format!("{} elements: count_eq(a,a) = {}, count_eq(a,b) = {}, count_neq(a,b) = {}, integer count_eq(a,a) = {}", n, ceq_self, ceq, cneq, iceq));
                lx.check(sq == nf && l1 == nf && linf == 1.0 && isq == n as i64, "C09/sq-l2", || format!("{} elements (ones against zeros): sq_l2 = {}, l1 = {}, linf = {}, integer sq_l2 = {}", n, sq, l1, linf, isq));
                let tol = 8.0 * f64::EPSILON;
                lx.check((mae - 1.0).abs() <= tol && (mse - 1.0).abs() <= tol && (rmse - 1.0).abs() <= tol, "C09/mean-sq-err", || format!("{} elements (ones against zeros): mean_abs_err = {:e}, mean_sq_err = {:e}, root_mean_sq_err = {:e}, each exactly 1", n, mae, mse, rmse));
                lx.check((psnr - 20.0).abs() <= 1e-12, "C09/psnr", || format!("{} elements: psnr(maxv 10) = {:e}, expected 20", n, psnr));
                hash_of(&(ceq_self, sq.to_bits(), mse.to_bits()))
            }
            other => {
                lx.fail("C09/failed", || format!("{} elements: {:?}", n, other.map(|_| ())));
                0
            }
        }
    });
}

fn main() {
    let mut rep = Report::new("C09");
    rep.rule = "case = (operand a, operand b over a 4-value alphabet, element type) with a rotating stride pair (1-D); (shape, layout of a, layout of b, fill, ownership pair, type) in n-D; non-trivial = at least 2 elements".into();
    rep.assume("integers and BigInt: exact equality with a BigInt reference; f64: base sums within 4(n+2)u relative, derived measures recomputed in f64 from the exact numerator with 8u more; psnr with absolute tolerance (log10 turns relative error into absolute)");
    let nmax = rep.cfg.pick(4, 5);
    let cases = (1..=nmax).flat_map(|n| sequences(n, 4).flat_map(move |a| sequences(n, 4).map(move |b| (a.clone(), b)))).flat_map(|(a, b)| (0..4u8).map(move |ty| Case1 { a: a.clone(), b: b.clone(), ty }));
    rep.run_sub(
        "all-pairs-1d",
        &format!("every pair of arrays of length 1..={} over a 4-value alphabet x i32 / i64 / f64 / BigInt (non-Copy), stride pair rotating over {:?}: all ten measures vs exact reference, symmetry, identity", nmax, STRIDE_PAIRS),
        cases,
        |c, lx| {
            lx.nontrivial(c.a.len() >= 2);
            match c.ty {
                0 => run1::<i32>(c, lx),
                1 => run1::<i64>(c, lx),
                2 => run1::<f64>(c, lx),
                _ => run1::<BigInt>(c, lx),
            }
        },
    );
    let amax = rep.cfg.pick(6, 7);
    let acases = (3..=amax).flat_map(|m| sequences(m, 4)).flat_map(|d| {
        (0..4u8).flat_map(move |kind| {
            let d = d.clone();
            let keep = kind < 3 || d.len() == 4;
            (0..4u8).filter(move |_| keep).map(move |ty| AliasCase { digits: d.clone(), kind, ty }).collect::<Vec<_>>()
        })
    });
    rep.run_sub(
        "aliasing-operands",
        &format!("every buffer of length 3..={} over the 4-value alphabet x 4 element types; both operands are views into that ONE buffer: (same start, same length, stride 1 vs 2), overlapping windows, the buffer against its reversed view, a 2x2 matrix against its own transpose", amax),
        acases,
        |c, lx| {
            lx.nontrivial(true);
            match c.ty {
                0 => run_alias::<i32>(c, lx),
                1 => run_alias::<i64>(c, lx),
                2 => run_alias::<f64>(c, lx),
                _ => run_alias::<BigInt>(c, lx),
            }
        },
    );
    // every pair of small 2-D / 3-D arrays over two values: equal lanes, equal planes, identical arrays,
    // in shapes whose axis lengths all differ
    let ccases = [vec![2usize, 3], vec![3, 2], vec![1, 4], vec![2, 1, 3]].into_iter().flat_map(|shape| {
        let n: usize = shape.iter().product();
        (0u32..(1 << n)).flat_map(move |ma| {
            let shape = shape.clone();
            (0u32..(1 << n)).map(move |mb| (shape.clone(), ma, mb))
        })
    });
    rep.run_sub(
        "complete-small-nd",
        "every pair of arrays of shape (2,3), (3,2), (1,4), (2,1,3) over two values (all 4096 pairs per 6-element shape), i32 and f64, row-major against column-major operands, dynamic and static dimensionality: all ten measures against the logical-index reference",
        ccases,
        |(shape, ma, mb), lx| {
            let n: usize = shape.iter().product();
            lx.nontrivial(ma != mb);
            macro_rules! go {
                ($t:ty) => {{
                    let a: Vec<$t> = (0..n).map(|i| <$t as DevElem>::mk(if ma >> i & 1 == 1 { 3 } else { 1 })).collect();
                    let b: Vec<$t> = (0..n).map(|i| <$t as DevElem>::mk(if mb >> i & 1 == 1 { 3 } else { 1 })).collect();
                    let w = want_of(&a, &b);
                    let maxv = <$t as DevElem>::mk(3);
                    lx.single(|lx| {
                        let aa = ndarray::ArrayD::from_shape_vec(IxDyn(shape), a.clone()).unwrap();
                        let bb = ndarray::ArrayD::from_shape_vec(IxDyn(shape), b.clone()).unwrap();
                        // column-major copy of b (same logical content)
                        let bf = bb.clone().reversed_axes().as_standard_layout().into_owned().reversed_axes();
                        let ctx = || format!("shape {:?}: a = {:?}, b = {:?} (logical row-major order)", shape, a, b);
                        let mut h = 0;
                        for (k, other) in [&bb, &bf].iter().enumerate() {
                            match measure(&aa, *other, maxv.clone()) {
                                Ok(m) => h ^= judge(&m, &w, &maxv, &ctx, lx).rotate_left(k as u32),
                                Err(e) => lx.fail("C09/failed", || format!("[{}] {}; {}", <$t as DevElem>::NAME, e, ctx())),
                            }
                        }
                        if shape.len() == 2 {
                            let (sa, sb) = (aa.view().into_dimensionality::<Ix2>().unwrap(), bb.view().into_dimensionality::<Ix2>().unwrap());
                            match measure(&sa, &sb, maxv.clone()) {
                                Ok(m) => h ^= judge(&m, &w, &maxv, &ctx, lx),
                                Err(e) => lx.fail("C09/failed", || format!("[{}] Ix2: {}; {}", <$t as DevElem>::NAME, e, ctx())),
                            }
                        }
                        h
                    });
                }};
            }
            go!(i32);
            go!(f64);
        },
    );
    // 3x3 matrices against their transpose (9 cells: every matrix over 3 of the 4 values)
    let tcases = sequences(9, 3).flat_map(|d| (0..2u8).map(move |ty| AliasCase { digits: d.clone(), kind: 3, ty: ty * 2 }));
    rep.run_sub(
        "aliasing-transpose-3x3",
        "every 3x3 matrix over 3 values (19683) against its own transpose, i32 and f64",
        tcases,
        |c, lx| {
            lx.nontrivial(true);
            match c.ty {
                0 => run_alias::<i32>(c, lx),
                _ => run_alias::<f64>(c, lx),
            }
        },
    );
    let smax = rep.cfg.pick(1100, 4100);
    let scases = nsmc::patterns::sizes(72, smax).into_iter().filter(|&n| n >= 1).flat_map(|n| (0..3u8).flat_map(move |fill| (0..4u8).map(move |ty| SizeCase { n, fill, ty })));
    rep.run_sub(
        "size-sweep",
        &format!("every length 1..=72 and block / unrolling threshold neighbourhoods up to {} x 3 fills (equal leading elements then dense differences; differences only around multiples of 64; a difference only at the last position) x i32 / i64 / f64 / BigInt on opposite strides; peak value 65535 (i32) / 4e9 (i64) whose square does not fit the element type", smax),
        scases,
        |c, lx| {
            lx.nontrivial(c.n >= 2);
            match c.ty {
                0 => run_size::<i32>(c, lx),
                1 => run_size::<i64>(c, lx),
                2 => run_size::<f64>(c, lx),
                _ => run_size::<BigInt>(c, lx),
            }
        },
    );
    rep.run_sub(
        "large-close-values",
        "operands of length 1..=9 x 5 fills whose elements are large but close: i64 around 2^60, i128 around 2^100, BigInt around 2^80 (differences are small multiples of 3), f64 around 1e8 differing by multiples of 1e-3, f64 around 0.5 differing by multiples of 1e-9 (mean squared error ~ 1e-17)",
        (1..=9usize).flat_map(|n| (0..5u8).flat_map(move |fill| (0..5u8).map(move |ty| (n, fill, ty)))),
        run_close,
    );
    let thorough = rep.cfg.thorough();
    let mut cases: Vec<CaseN> = Vec::new();
    let st = [1isize, 2, -1, -2];
    for shape in [vec![3usize], vec![1, 1], vec![1, 3], vec![3, 1], vec![2, 2], vec![2, 3], vec![2, 1, 2], vec![2, 2, 1, 2]] {
        let d = shape.len();
        let la_all = if d <= 2 || thorough { all_layouts(d, &st) } else { covering_layouts(d, &st) };
        let lb_all = if d <= 2 { all_layouts(d, &st) } else if thorough && d == 3 { all_layouts(d, &st) } else { covering_layouts(d, &st) };
        for (i, la) in la_all.iter().enumerate() {
            for (j, lb) in lb_all.iter().enumerate() {
                // 3-D/4-D: covering set of pairs
                if d >= 3 && !(thorough && d == 3) && (i + 2 * j) % 3 != 0 {
                    continue;
                }
                let fill = (i + j) % 4;
                let own = (((i * 7 + j) % 6) as u8, ((i + j * 5) % 6) as u8);
                let ty = ((i + j) % 4) as u8;
                cases.push(CaseN { shape: shape.clone(), la: la.clone(), lb: lb.clone(), fill, own, ty });
            }
        }
    }
    rep.run_sub(
        "layout-and-ownership-pairs",
        "shapes (3,), (2,2), (2,3), (2,1,2), (2,2,1,2): ALL pairs of layouts for the two operands in 1-D and 2-D (1600 pairs per 2-D shape), a covering set of pairs in 3-D / 4-D (thorough: all 3-D pairs); ownership kinds {view, view_mut, owned (non-standard strides), ArcArray, CowArray (borrowed), CowArray (owned)} rotating over all 36 pairs; 4 asymmetric fills; 4 element types; static and dynamic dimensionality",
        cases.into_iter(),
        |c, lx| {
            lx.nontrivial(true);
            match c.ty {
                0 => runn::<i32>(c, lx),
                1 => runn::<i64>(c, lx),
                2 => runn::<f64>(c, lx),
                _ => runn::<BigInt>(c, lx),
            }
        },
    );
    rep.run_sub(
        "very-long-operands",
        "stride-0 broadcast views of 65535, 65536, 65537, 70000 and 2^24 + 1 elements (ones against zeros, and against themselves; f64 and i64): counts, sums and the /n measures are exact",
        vec![65535usize, 65536, 65537, 70000, (1 << 24) + 1].into_iter(),
        |n, lx| {
            lx.nontrivial(true);
            run_long(*n, lx)
        },
    );
    // a NaN compared with itself: count_eq / count_neq when both operands are the same array (or views of it)
    rep.run_sub(
        "nan-against-itself",
        "every f64 array of length 1..=4 over {0, 1, NaN} compared with itself, with a view of itself and with its own reversed view: count_eq counts the positions whose two elements are equal (a NaN is not equal to itself), count_eq + count_neq is the length",
        (1..=4usize).flat_map(|n| sequences(n, 3)),
        |d, lx| {
            lx.nontrivial(d.contains(&2));
            lx.single(|lx| {
                let v: Vec<f64> = d.iter().map(|&x| [0.0, 1.0, f64::NAN][x as usize]).collect();
                let a = Array1::from(v.clone());
                let n = v.len();
                let want_self = v.iter().filter(|x| **x == **x).count();
                let want_rev = (0..n).filter(|&i| v[i] == v[n - 1 - i]).count();
                let rev = a.slice(ndarray::s![..;-1]);
                let r = guarded(|| (a.count_eq(&a), a.count_neq(&a), a.view().count_eq(&a.view()), a.view().count_eq(&rev), a.view().count_neq(&rev)));
                match r {
                    Ok((Ok(e1), Ok(n1), Ok(e2), Ok(e3), Ok(n3))) => {
                        lx.check(e1 == want_self && e2 == want_self && e1 + n1 == n, "C09/count-eq", || format!("{:?} against itself: count_eq = {} (views: {}), count_neq = {}, expected {} equal positions", v, e1, e2, n1, want_self));
                        lx.check(e3 == want_rev && e3 + n3 == n, "C09/count-eq", || format!("{:?} against its reversed view: count_eq = {}, count_neq = {}, expected {} equal positions", v, e3, n3, want_rev));
                        hash_of(&(e1, e3))
                    }
                    other => {
                        lx.fail("C09/failed", || format!("{:?}: {:?}", v, other.map(|_| ())));
                        0
                    }
                }
            });
        },
    );
    // infinite elements and squares that overflow
    let nf = (1..=3usize).flat_map(|n| sequences(n, 6).flat_map(move |a| sequences(n, 6).map(move |b| (a.clone(), b))));
    rep.run_sub(
        "non-finite-and-overflow",
        "all pairs of float arrays of length 1..=3 over {0, 1, +-BIG, +-inf} (BIG = 1e200 for f64, 1e30 for f32: its square overflows): every measure against the IEEE value of its documented formula (NaN iff a difference is inf - inf, +inf iff a term is infinite or overflows; psnr -inf / NaN accordingly)",
        nf,
        |(a, b), lx| {
            lx.nontrivial(a.iter().chain(b.iter()).any(|&d| d >= 2));
            run_nonfinite::<f64>(a, b, "f64", 1e200, lx);
            run_nonfinite::<f32>(a, b, "f32", 1e30, lx);
        },
    );
    rep.finish();
}
