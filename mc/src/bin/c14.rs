//! C14 — NaN-skipping operations equal the plain operation on the data without NaNs.
use ndarray::prelude::*;
use ndarray::{Dimension, IntoDimension};
use ndarray_stats::interpolate::{Higher, Interpolate, Linear, Lower, Midpoint, Nearest};
use ndarray_stats::{MaybeNan, MaybeNanExt, Quantile1dExt, QuantileExt};
use noisy_float::types::n64;
use nsmc::layouts::{all_layouts, lanes_flat, Host, Host1, Layout};
use nsmc::patterns::{q_grid, q_grid_small, weak_orders};
use nsmc::*;
use std::fmt::Debug;

trait SN: MaybeNan + Clone + Debug + Send + Sync + 'static {
    const NAME: &'static str;
    /// the element type of "the same data with the missing values deleted": N64 for floats, T for Option<T>.
    /// The plain reference runs on THIS type, not on the crate's not-NaN wrapper, so a defect in the
    /// wrapper's arithmetic or conversions cannot cancel out of the comparison.
    type Plain: Ord + Clone + Debug + num_traits::NumOps + num_traits::FromPrimitive + num_traits::ToPrimitive;
    fn plain(&self) -> Self::Plain;
    fn from_plain(p: Self::Plain) -> Self;
    fn mk(rank: usize) -> Self;
    fn missing() -> Self;
    fn key(&self) -> i64;
}
impl SN for f64 {
    const NAME: &'static str = "f64";
    type Plain = noisy_float::types::N64;
    fn plain(&self) -> Self::Plain {
        n64(*self)
    }
    fn from_plain(p: Self::Plain) -> f64 {
        p.raw()
    }
    fn mk(r: usize) -> f64 {
        // an infinity is an ordinary (non-missing) value
        [-2.5, -0.0, 0.75, 3.0, 3.5, f64::INFINITY, 2e9][r]
    }
    fn missing() -> f64 {
        f64::NAN
    }
    fn key(&self) -> i64 {
        // the float's own test, not `MaybeNan::is_nan` (the code under test)
        if Self::is_nan(*self) {
            i64::MIN
        } else {
            (*self + 0.0).to_bits() as i64
        }
    }
}
impl SN for f32 {
    const NAME: &'static str = "f32";
    type Plain = noisy_float::types::N32;
    fn plain(&self) -> Self::Plain {
        noisy_float::types::n32(*self)
    }
    fn from_plain(p: Self::Plain) -> f32 {
        p.raw()
    }
    fn mk(r: usize) -> f32 {
        [-2.5, -0.0, 0.75, 3.0, 3.5, 1e9, 2e9][r]
    }
    fn missing() -> f32 {
        f32::NAN
    }
    fn key(&self) -> i64 {
        // the float's own test, not `MaybeNan::is_nan` (the code under test)
        if Self::is_nan(*self) {
            i64::MIN
        } else {
            (*self + 0.0).to_bits() as i64
        }
    }
}
impl SN for Option<noisy_float::types::N64> {
    const NAME: &'static str = "Option<N64>";
    type Plain = noisy_float::types::N64;
    fn plain(&self) -> Self::Plain {
        self.unwrap()
    }
    fn from_plain(p: Self::Plain) -> Self {
        Some(p)
    }
    fn mk(r: usize) -> Option<noisy_float::types::N64> {
        Some(n64([-2.5, -0.0, 0.75, 3.0, 3.5, 1e9, 2e9][r]))
    }
    fn missing() -> Option<noisy_float::types::N64> {
        None
    }
    fn key(&self) -> i64 {
        match self {
            None => i64::MIN,
            Some(v) => (v.raw() + 0.0).to_bits() as i64,
        }
    }
}
impl SN for Option<i32> {
    const NAME: &'static str = "Option<i32>";
    type Plain = i32;
    fn plain(&self) -> i32 {
        self.unwrap()
    }
    fn from_plain(p: i32) -> Self {
        Some(p)
    }
    fn mk(r: usize) -> Option<i32> {
        Some([-7, 0, 3, 10, 11, 12, 100][r])
    }
    fn missing() -> Option<i32> {
        None
    }
    fn key(&self) -> i64 {
        self.map(|v| v as i64).unwrap_or(i64::MIN)
    }
}

fn nn<A: SN>(x: &A) -> A::NotNan
where
    A::NotNan: Clone,
{
    x.try_as_not_nan().expect("non-missing").clone()
}

fn sorted(mut v: Vec<i64>) -> Vec<i64> {
    v.sort();
    v
}

/// All non-quantile skip-NaN entry points on one array; `logical` is its content in logical C order.
fn check_folds<A: SN, D: Dimension>(a: &ArrayBase<ndarray::ViewRepr<&A>, D>, logical: &[A], tag: &str, lx: &mut Local) -> u64
where
    A::NotNan: Clone + Ord + Debug,
    D: ndarray::RemoveAxis,
{
    let shape = a.shape().to_vec();
    let desc = || format!("{} {} shape {:?} strides {:?} content {:?}", A::NAME, tag, shape, a.strides(), logical);
    let kept: Vec<&A> = logical.iter().filter(|x| x.key() != i64::MIN).collect();
    let want = sorted(kept.iter().map(|x| x.key()).collect());
    let mut obs: Vec<i64> = Vec::new();
    // fold_skipnan
    let got = guarded(|| a.fold_skipnan(Vec::new(), |mut acc, x| {
        acc.push(A::from_not_nan(x.clone()).key());
        acc
    }));
    match got {
        Ok(g) => {
            lx.check(sorted(g.clone()) == want, "C14/fold-skipnan", || format!("fold_skipnan saw {:?}, expected the non-missing elements once each, on {}", g, desc()));
        }
        Err(m) => lx.fail("C14/panic", || format!("fold_skipnan panicked: {} on {}", m, desc())),
    }
    // visit_skipnan
    let mut seen = Vec::new();
    let r = guarded(|| a.visit_skipnan(|x| seen.push(A::from_not_nan(x.clone()).key())));
    if r.is_err() {
        lx.fail("C14/panic", || format!("visit_skipnan panicked on {}", desc()));
    }
    lx.check(sorted(seen.clone()) == want, "C14/visit-skipnan", || format!("visit_skipnan saw {:?} on {}", seen, desc()));
    // indexed_fold_skipnan
    let got = guarded(|| a.indexed_fold_skipnan(Vec::new(), |mut acc, (idx, x)| {
        let ix: Vec<usize> = idx.into_dimension().slice().to_vec();
        acc.push((ix, A::from_not_nan(x.clone()).key()));
        acc
    }));
    match got {
        Ok(g) => {
            let mut ixs: Vec<Vec<usize>> = g.iter().map(|t| t.0.clone()).collect();
            ixs.sort();
            ixs.dedup();
            lx.check(ixs.len() == g.len() && g.len() == want.len(), "C14/indexed-fold-count", || format!("indexed_fold_skipnan visited {} entries ({} distinct indexes), {} elements are non-missing, on {}", g.len(), ixs.len(), want.len(), desc()));
            for (ix, k) in &g {
                let ok = ix.len() == shape.len() && ix.iter().zip(&shape).all(|(i, s)| i < s);
                if !lx.check(ok, "C14/indexed-fold-bad-index", || format!("index {:?} on {}", ix, desc())) {
                    continue;
                }
                let mut flat = 0usize;
                for (i, s) in ix.iter().zip(&shape) {
                    flat = flat * s + i;
                }
                lx.check(logical[flat].key() == *k, "C14/indexed-fold-index-value", || format!("indexed_fold_skipnan paired index {:?} with key {} but the element there is {:?}, on {}", ix, k, logical[flat], desc()));
            }
        }
        Err(m) => lx.fail("C14/panic", || format!("indexed_fold_skipnan panicked: {} on {}", m, desc())),
    }
    // min/max/argmin/argmax _skipnan
    let kmin = kept.iter().map(|x| nn(*x)).min();
    let kmax = kept.iter().map(|x| nn(*x)).max();
    for is_min in [true, false] {
        let name = if is_min { "min" } else { "max" };
        let ext = if is_min { &kmin } else { &kmax };
        let want_key = ext.as_ref().map(|v| A::from_not_nan(v.clone()).key()).unwrap_or(i64::MIN);
        let v = guarded(|| if is_min { a.min_skipnan().clone() } else { a.max_skipnan().clone() });
        match v {
            Ok(v) => {
                lx.check(v.key() == want_key, "C14/minmax-skipnan", || format!("{}_skipnan returned {:?}, expected key {} on {}", name, v, want_key, desc()));
                obs.push(v.key());
            }
            Err(m) => lx.fail("C14/panic", || format!("{}_skipnan panicked: {} on {}", name, m, desc())),
        }
        let r = guarded(|| if is_min { a.argmin_skipnan() } else { a.argmax_skipnan() });
        match r {
            Ok(Ok(p)) => {
                let ix: Vec<usize> = p.into_dimension().slice().to_vec();
                if ext.is_none() {
                    lx.fail("C14/arg-skipnan-missing-error", || format!("arg{}_skipnan returned Ok({:?}) although nothing is left, on {}", name, ix, desc()));
                } else if ix.len() == shape.len() && ix.iter().zip(&shape).all(|(i, s)| i < s) {
                    let mut flat = 0usize;
                    for (i, s) in ix.iter().zip(&shape) {
                        flat = flat * s + i;
                    }
                    lx.check(logical[flat].key() == want_key, "C14/arg-skipnan", || format!("arg{}_skipnan returned {:?} which holds {:?}, expected an element with key {}, on {}", name, ix, logical[flat], want_key, desc()));
                } else {
                    lx.fail("C14/arg-skipnan-bad-index", || format!("arg{}_skipnan returned {:?} on {}", name, ix, desc()));
                }
            }
            Ok(Err(_)) => {
                lx.check(ext.is_none(), "C14/arg-skipnan-spurious-error", || format!("arg{}_skipnan returned EmptyInput although elements are left, on {}", name, desc()));
            }
            Err(m) => lx.fail("C14/panic", || format!("arg{}_skipnan panicked: {} on {}", name, m, desc())),
        }
    }
    // fold_axis_skipnan along every axis
    for axis in 0..shape.len() {
        let lanes = lanes_flat(&shape, axis);
        let r = guarded(|| a.fold_axis_skipnan(Axis(axis), Vec::<i64>::new(), |acc, x| {
            let mut v = acc.clone();
            v.push(A::from_not_nan(x.clone()).key());
            v
        }));
        match r {
            Ok(res) => {
                let flat: Vec<Vec<i64>> = res.iter().cloned().collect();
                lx.check(flat.len() == lanes.len(), "C14/fold-axis-shape", || format!("fold_axis_skipnan axis {}: {} lanes, expected {} on {}", axis, flat.len(), lanes.len(), desc()));
                for (j, lane) in lanes.iter().enumerate() {
                    if j >= flat.len() {
                        break;
                    }
                    // the plain per-axis fold combines the elements of a lane in index order, and the fold
                    // function need not be commutative: the sequence, not just the multiset, must match
                    let w: Vec<i64> = lane.iter().map(|&i| logical[i].key()).filter(|k| *k != i64::MIN).collect();
                    lx.check(flat[j] == w, "C14/fold-axis-skipnan", || format!("fold_axis_skipnan axis {} lane {} combined the elements in the order {:?}, the lane without its missing values is {:?}, on {}", axis, j, flat[j], w, desc()));
                }
            }
            Err(m) => lx.fail("C14/panic", || format!("fold_axis_skipnan panicked: {} on {}", m, desc())),
        }
    }
    hash_of(&obs)
}

/// plain quantile of the filtered data with the real plain routine (differential reference)
fn plain_ref<A: SN, I: Interpolate<A::Plain>>(kept: &[A], q: f64, i: &I) -> Result<A, String> {
    if kept.is_empty() {
        return Ok(A::missing());
    }
    let mut v: Array1<A::Plain> = Array1::from(kept.iter().map(|x| x.plain()).collect::<Vec<_>>());
    guarded(|| A::from_plain(v.quantile_mut(n64(q), i).unwrap()))
}

fn quantile_case<A: SN, I: Interpolate<A::NotNan> + Interpolate<A::Plain>>(shape: &[usize], axis: usize, layout: &Layout, logical: &[A], q: f64, i: &I, sname: &str, mode: &PivotMode, lx: &mut Local)
where
    A::NotNan: Clone + Ord,
{
    let lanes = lanes_flat(shape, axis);
    // references first (outside the exploration; middle pivots)
    let refs: Vec<Result<A, String>> = lanes.iter().map(|lane| {
        let kept: Vec<A> = lane.iter().map(|&k| logical[k].clone()).filter(|x| x.key() != i64::MIN).collect();
        plain_ref(&kept, q, i)
    }).collect();
    lx.explore(mode, |lx| {
        let mut h = Host::new(shape, logical, layout, A::mk(6));
        let r = guarded(|| {
            let mut v = h.view_mut();
            v.quantile_axis_skipnan_mut(Axis(axis), n64(q), i)
        });
        let desc = || format!("{} quantile_axis_skipnan_mut(axis {}, q={:?}, {}) shape {:?} layout {:?} content {:?}", A::NAME, axis, q, sname, shape, layout, logical);
        match r {
            Err(m) => {
                // the plain routine panicking on the same filtered data is the same behaviour (e.g. unrepresentable interpolation)
                if refs.iter().all(|r| r.is_ok()) {
                    lx.fail("C14/quantile-skipnan-panic", || format!("panicked ({}) but the plain routine on the filtered lanes does not: {}", m, desc()));
                }
                0
            }
            Ok(Err(e)) => {
                // the plain routine reports EmptyInput exactly when the chosen axis has length 0
                lx.check(shape[axis] == 0, "C14/quantile-skipnan-error", || format!("returned {:?}: {}", e, desc()));
                1
            }
            Ok(Ok(res)) => {
                if shape[axis] == 0 {
                    lx.fail("C14/quantile-skipnan-missing-error", || format!("axis of length 0 accepted: {}", desc()));
                    return 2;
                }
                let flat: Vec<A> = res.iter().cloned().collect();
                let mut want_shape = shape.to_vec();
                want_shape.remove(axis);
                lx.check(res.shape() == &want_shape[..], "C14/quantile-skipnan-shape", || format!("result shape {:?}, expected {:?}: {}", res.shape(), want_shape, desc()));
                for (j, rf) in refs.iter().enumerate() {
                    if j >= flat.len() {
                        break;
                    }
                    if let Ok(w) = rf {
                        lx.check(flat[j].key() == w.key(), "C14/quantile-skipnan-value", || format!("lane {}: got {:?}, plain quantile of the filtered lane gives {:?}: {}", j, flat[j], w, desc()));
                    }
                }
                // history: the same array, as the first call left it, is used again. The routines may permute
                // a lane but must leave it holding the same elements, so a second skip-NaN operation sees
                // the same data (a differential check from a non-initial state).
                // the history check runs after one pivot sequence of the first call per case (always the first
                // element as pivot: the first leaf of the search), with all pivot sequences of the second call
                if nsmc::explore::current_pivots().iter().any(|&p| p != 0) {
                    return hash_of(&flat.iter().map(|x| x.key()).collect::<Vec<_>>());
                }
                // What the array holds now is the input of the second call. The references computed from the
                // original content apply to it only if every lane still holds the same non-missing elements
                // (that the first call merely permutes its lanes is property C03, not this one).
                let now: Vec<A> = h.view().iter().cloned().collect();
                let unchanged = lanes.iter().all(|lane| {
                    sorted(lane.iter().map(|&k| now[k].key()).filter(|k| *k != i64::MIN).collect()) == sorted(lane.iter().map(|&k| logical[k].key()).filter(|k| *k != i64::MIN).collect())
                });
                if !unchanged {
                    lx.skip("second call: the first call changed the non-missing content of a lane (a C03 matter); no reference for the new content");
                    return hash_of(&flat.iter().map(|x| x.key()).collect::<Vec<_>>());
                }
                lx.count("executions_followed_by_a_second_call_on_the_same_array", 1);
                let again = guarded(|| {
                    let mut v = h.view_mut();
                    let second = v.quantile_axis_skipnan_mut(Axis(axis), n64(q), i);
                    let seen = v.fold_axis_skipnan(Axis(axis), Vec::<i64>::new(), |acc, x| {
                        let mut t = acc.clone();
                        t.push(A::from_not_nan(x.clone()).key());
                        t
                    });
                    (second, seen)
                });
                match again {
                    Err(m) => lx.fail("C14/second-call-panic", || format!("a second skip-NaN call on the same array panicked ({}): {}", m, desc())),
                    Ok((second, seen)) => {
                        match second {
                            Ok(res2) => {
                                let flat2: Vec<A> = res2.iter().cloned().collect();
                                for (j, rf) in refs.iter().enumerate() {
                                    if let (Ok(w), Some(g)) = (rf, flat2.get(j)) {
                                        lx.check(g.key() == w.key(), "C14/second-call-value", || format!("lane {}: the same call repeated on the same array gives {:?}, the plain quantile of the filtered lane is {:?}: {}", j, g, w, desc()));
                                    }
                                }
                            }
                            Err(e) => lx.fail("C14/second-call-error", || format!("the same call repeated on the same array returned {:?}: {}", e, desc())),
                        }
                        let seen: Vec<Vec<i64>> = seen.iter().cloned().collect();
                        for (j, lane) in lanes.iter().enumerate() {
                            if let Some(g) = seen.get(j) {
                                let w = sorted(lane.iter().map(|&k| logical[k].key()).filter(|k| *k != i64::MIN).collect());
                                lx.check(sorted(g.clone()) == w, "C14/fold-after-quantile", || format!("lane {}: fold_axis_skipnan after the quantile call sees {:?}, the lane's non-missing elements are {:?}: {}", j, g, w, desc()));
                            }
                        }
                    }
                }
                hash_of(&flat.iter().map(|x| x.key()).collect::<Vec<_>>())
            }
        }
    });
}

fn quantile_dispatch<A: SN>(shape: &[usize], axis: usize, layout: &Layout, logical: &[A], q: f64, strat: u8, mode: &PivotMode, lx: &mut Local)
where
    A::NotNan: Clone + Ord + num_traits::NumOps + num_traits::FromPrimitive + num_traits::ToPrimitive,
{
    match strat {
        0 => quantile_case(shape, axis, layout, logical, q, &Lower, "Lower", mode, lx),
        1 => quantile_case(shape, axis, layout, logical, q, &Higher, "Higher", mode, lx),
        2 => quantile_case(shape, axis, layout, logical, q, &Nearest, "Nearest", mode, lx),
        3 => quantile_case(shape, axis, layout, logical, q, &Midpoint, "Midpoint", mode, lx),
        _ => quantile_case(shape, axis, layout, logical, q, &Linear, "Linear", mode, lx),
    }
}

#[derive(Debug, Clone)]
struct Case1 {
    n: usize,
    mask: u32,
    pat: Vec<u8>,
    ty: u8,
}

fn content1<A: SN>(c: &Case1) -> Vec<A> {
    let mut it = c.pat.iter();
    (0..c.n).map(|i| if c.mask >> i & 1 == 1 { A::missing() } else { A::mk(*it.next().unwrap() as usize) }).collect()
}

fn run1<A: SN>(c: &Case1, qs: &[f64], lx: &mut Local)
where
    A::NotNan: Clone + Ord + Debug + num_traits::NumOps + num_traits::FromPrimitive + num_traits::ToPrimitive,
{
    let data: Vec<A> = content1(c);
    for step in [1isize, 2, -1] {
        lx.single(|lx| {
            let h = Host1::new(&data, step, 1, A::mk(6));
            check_folds(&h.view(), &data, &format!("1-D step {}", step), lx)
        });
    }
    if c.n == 0 {
        return;
    }
    let k = c.pat.len();
    let grid: Vec<f64> = if k >= 1 { qs.iter().cloned().chain(q_grid_small(k)).collect() } else { vec![0.0, 0.5, 1.0] };
    let layouts = [Layout { perm: vec![0], steps: vec![1], pad: 0 }, Layout { perm: vec![0], steps: vec![2], pad: 1 }, Layout { perm: vec![0], steps: vec![-1], pad: 1 }];
    for (qi, q) in grid.iter().enumerate() {
        for strat in 0..5u8 {
            let l = &layouts[(qi + strat as usize) % 3];
            quantile_dispatch(&[c.n], 0, l, &data, *q, strat, &PivotMode::All, lx);
        }
    }
}

#[derive(Debug, Clone)]
struct CaseN {
    shape: Vec<usize>,
    layout: Layout,
    family: usize,
    ty: u8,
}

fn contentn<A: SN>(c: &CaseN) -> Vec<A> {
    let n: usize = c.shape.iter().product();
    // whole-array mask families 0..3: none, all, first-only, last-only; 4..: per-element pseudo-pattern
    (0..n)
        .map(|i| {
            let miss = match c.family {
                0 => false,
                1 => true,
                2 => i == 0,
                3 => i + 1 == n,
                f => ((i * 7 + f * 3) % 5) < 2 || (f % 3 == 0 && i % 3 == 0),
            };
            if miss {
                A::missing()
            } else {
                A::mk((i * 3 + c.family) % 6)
            }
        })
        .collect()
}

fn runn<A: SN>(c: &CaseN, dev: u32, lx: &mut Local)
where
    A::NotNan: Clone + Ord + Debug + num_traits::NumOps + num_traits::FromPrimitive + num_traits::ToPrimitive,
{
    let data: Vec<A> = contentn(c);
    lx.single(|lx| {
        let h = Host::new(&c.shape, &data, &c.layout, A::mk(6));
        let v = h.view();
        let a = check_folds(&v, &data, "n-D IxDyn", lx);
        let b = match c.shape.len() {
            2 => check_folds(&v.clone().into_dimensionality::<Ix2>().unwrap(), &data, "n-D Ix2", lx),
            3 => check_folds(&v.clone().into_dimensionality::<Ix3>().unwrap(), &data, "n-D Ix3", lx),
            4 => check_folds(&v.clone().into_dimensionality::<Ix4>().unwrap(), &data, "n-D Ix4", lx),
            _ => check_folds(&v.clone().into_dimensionality::<Ix5>().unwrap(), &data, "n-D Ix5", lx),
        };
        hash_of(&(a, b))
    });
    for axis in 0..c.shape.len() {
        let ll = c.shape[axis];
        let grid = q_grid_small(ll);
        for (qi, q) in grid.iter().enumerate() {
            let strat = ((qi + c.family + axis) % 5) as u8;
            let pol = Policy::ALL[(qi + c.family) % 3];
            quantile_dispatch(&c.shape, axis, &c.layout, &data, *q, strat, &PivotMode::Bounded { policy: pol, bound: dev }, lx);
        }
    }
}

fn main() {
    let mut rep = Report::new("C14");
    rep.rule = "case = (element type, length, missing-value mask, weak-order pattern of the remaining elements) in 1-D, (type, shape, layout, mask/content family) in n-D; non-trivial = at least one missing and one non-missing element".into();
    rep.assume("the reference for quantile_axis_skipnan_mut is the crate's own plain quantile_mut applied to the filtered lane in its plain element type (N64 / N32 for floats, T for Option<T> - not the not-NaN wrapper); the property is literally this equivalence and the plain routine itself is decided by C01; all other entry points are compared with an independent filter-then-scan");
    let nmax = rep.cfg.pick(5, 6);
    let extra_q: Vec<f64> = q_grid(3).into_iter().step_by(3).collect();
    let mut cases: Vec<Case1> = Vec::new();
    for n in 0..=nmax {
        for mask in 0u32..(1 << n) {
            let k = n - mask.count_ones() as usize;
            for pat in weak_orders(k) {
                for ty in 0..4u8 {
                    // f32 and Option<N64> only on every other pattern
                    if (ty == 1 || ty == 3) && (mask as usize + pat.len() + ty as usize) % 2 == 1 {
                        continue;
                    }
                    cases.push(Case1 { n, mask, pat: pat.clone(), ty });
                }
            }
        }
    }
    let eq = extra_q.clone();
    rep.run_sub(
        "one-dimensional",
        &format!("every missing-value mask of length 0..={} x every weak-order pattern of the remaining elements x f64 / f32 / Option<i32> / Option<N64>; folds, visits, arg/min/max on strides {{1,2,-1}}; quantile_axis_skipnan_mut over a q grid (boundaries +-1ulp, plus {} extra points) x 5 strategies x ALL pivot sequences, on contiguous / stepped / reversed views", nmax, extra_q.len()),
        cases.into_iter(),
        move |c, lx| {
            let miss = c.mask.count_ones() as usize;
            lx.nontrivial(miss >= 1 && miss < c.n);
            if miss == c.n && c.n > 0 {
                lx.count("all_missing_arrays", 1);
            }
            match c.ty {
                0 => run1::<f64>(c, &eq, lx),
                1 => run1::<f32>(c, &eq, lx),
                3 => run1::<Option<noisy_float::types::N64>>(c, &eq, lx),
                _ => run1::<Option<i32>>(c, &eq, lx),
            }
        },
    );
    let dev = rep.cfg.pick(1, 2);
    let thorough = rep.cfg.thorough();
    let shapes: Vec<Vec<usize>> = if thorough { vec![vec![2, 3], vec![3, 2], vec![1, 4], vec![4, 1], vec![0, 3], vec![3, 0], vec![2, 2, 3], vec![3, 2, 2], vec![2, 1, 2]] } else { vec![vec![2, 3], vec![3, 2], vec![1, 3], vec![3, 1], vec![0, 3], vec![3, 0], vec![2, 2, 3], vec![2, 1, 2]] };
    let mut cases: Vec<CaseN> = Vec::new();
    let mut shapes = shapes;
    shapes.push(vec![2, 2, 2, 2]);
    shapes.push(vec![2, 1, 2, 1, 2]);
    for shape in &shapes {
        let d = shape.len();
        let layouts = if d <= 3 { all_layouts(d, &[1, 2, -1, -2]) } else { nsmc::layouts::covering_layouts(d, &[1, 2, -1, -2]) };
        for l in layouts {
            let nf = if thorough { 16 } else { 10 };
            for family in 0..nf {
                for ty in [0u8, 2, 3] {
                    if ty == 3 && family % 2 == 1 {
                        continue;
                    }
                    cases.push(CaseN { shape: shape.clone(), layout: l.clone(), family, ty });
                }
            }
        }
    }
    rep.run_sub(
        "n-dimensional",
        &format!("shapes {:?} x all layouts (4-D, 5-D: covering subset) x {} mask/content families (none, all, first-only, last-only missing, and mixed patterns) x f64 / Option<i32>; every entry point, quantile along every axis with q from the boundary grid, strategies rotating, 3 pivot policies x <= {} deviations; static and dynamic dimensionality", shapes, if thorough { 16 } else { 10 }, dev),
        cases.into_iter(),
        move |c, lx| {
            lx.nontrivial(c.family >= 2);
            match c.ty {
                0 => runn::<f64>(c, dev, lx),
                3 => runn::<Option<noisy_float::types::N64>>(c, dev, lx),
                _ => runn::<Option<i32>>(c, dev, lx),
            }
        },
    );
    rep.finish();
}
