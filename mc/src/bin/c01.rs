//! C01 — quantiles equal the documented order statistic of every lane.
use ndarray::prelude::*;
use ndarray_stats::{Quantile1dExt, QuantileExt};
use noisy_float::types::{n64, N64};
use nsmc::layouts::{all_layouts, covering_layouts, lanes_flat, Host, Host1, Layout};
use nsmc::patterns::{q_grid, q_grid_small, weak_orders};
use nsmc::qelem::{Judge, QElem, Verdict};
use nsmc::qoracle::Strat;
use nsmc::*;

#[derive(Debug, Clone)]
struct Case1 {
    pat: Vec<u8>,
    table: u8,
    ty: u8,
    strat: Strat,
    bulk: bool,
}

const K1_KEY: &str = "C01/K1-intermediate-not-representable";

fn record<T: QElem>(lx: &mut Local, j: &Judge<T>, got: Option<&T>, ctx: &dyn Fn() -> String) {
    match j.judge(got) {
        Verdict::Ok => {}
        Verdict::Known(why) => lx.fail(K1_KEY, || format!("{} [{}] {}", why, T::NAME, ctx())),
        Verdict::Bad(m) => {
            if got.is_none() {
                lx.fail("C01/panic", || format!("[{}] call panicked; {} {}", T::NAME, m, ctx()))
            } else {
                lx.fail("C01/wrong-value", || format!("[{}] {} {}", T::NAME, m, ctx()))
            }
        }
    }
}

fn run1<T: QElem>(c: &Case1, lx: &mut Local) {
    let n = c.pat.len();
    let tbl = if c.table == 1 && c.strat == Strat::Linear && (T::NAME == "i64" || T::NAME == "u64") { 2 } else { c.table };
    let k = c.pat.iter().map(|&r| r as usize + 1).max().unwrap_or(0);
    let table = T::table(tbl, k);
    let vals: Vec<T> = c.pat.iter().map(|&r| table[r as usize].clone()).collect();
    let mut sorted = vals.clone();
    sorted.sort();
    let grid = q_grid(n);
    if !c.bulk {
        for (qi, &q) in grid.iter().enumerate() {
            let mut first: Option<Option<i128>> = None;
            // contiguous for most, stepped / reversed views rotate in
            let step: isize = [1, 1, 2, -1][qi % 4];
            let jd = Judge::new(&sorted, q, c.strat);
            lx.explore(&PivotMode::All, |lx| {
                let r = if step == 1 {
                    let mut a = Array1::from(vals.clone());
                    guarded(|| nsmc::with_strategy!(c.strat, i, a.quantile_mut(n64(q), i)))
                } else {
                    let mut h = Host1::new(&vals, step, 1, table[0].clone());
                    guarded(|| nsmc::with_strategy!(c.strat, i, h.view_mut().quantile_mut(n64(q), i)))
                };
                let got: Option<T> = match r {
                    Ok(Ok(v)) => Some(v),
                    Ok(Err(e)) => {
                        lx.fail("C01/error", || format!("[{}] quantile_mut({:?}, {:?}) on {:?} returned Err({:?})", T::NAME, q, c.strat, vals, e));
                        return 0;
                    }
                    Err(_) => None,
                };
                record(lx, &jd, got.as_ref(), &|| format!("quantile_mut on {:?} (step {})", vals, step));
                let k = got.as_ref().map(|v| v.key());
                match &first {
                    None => first = Some(k),
                    Some(f) => {
                        if *f != k && jd.k1().is_none() {
                            lx.fail("C01/pivot-dependent-result", || format!("[{}] quantile_mut({:?}, {:?}) on {:?}: key {:?} on one pivot sequence, {:?} on another", T::NAME, q, c.strat, vals, f, k));
                        }
                    }
                }
                hash_of(&k)
            });
        }
    } else {
        // bulk: three request lists built from the grid: ascending slice, descending with repeats, shuffled
        let g = &grid;
        let lists: Vec<Vec<f64>> = vec![
            g.iter().cloned().step_by(3).collect(),
            g.iter().rev().cloned().step_by(5).flat_map(|q| vec![q, q]).collect(),
            (0..g.len()).map(|i| g[(i * 7 + 3) % g.len()]).take(9).collect(),
            vec![],
        ];
        for qs in lists {
            let jds: Vec<Judge<T>> = qs.iter().map(|&q| Judge::new(&sorted, q, c.strat)).collect();
            lx.explore(&PivotMode::All, |lx| {
                let mut a = Array1::from(vals.clone());
                let qa = Array1::from(qs.iter().map(|&q| n64(q)).collect::<Vec<N64>>());
                let r = guarded(|| nsmc::with_strategy!(c.strat, i, a.quantiles_mut(&qa, i)));
                match r {
                    Ok(Ok(res)) => {
                        lx.check(res.len() == qs.len(), "C01/bulk-shape", || format!("[{}] quantiles_mut with {} requests returned {} values", T::NAME, qs.len(), res.len()));
                        for (j, _q) in qs.iter().enumerate() {
                            if j < res.len() {
                                record(lx, &jds[j], Some(&res[j]), &|| format!("quantiles_mut on {:?}, request #{} of {:?}", vals, j, qs));
                            }
                        }
                        hash_of(&res.iter().map(|v| v.key()).collect::<Vec<_>>())
                    }
                    Ok(Err(e)) => {
                        lx.fail("C01/error", || format!("[{}] quantiles_mut({:?}) on {:?} returned Err({:?})", T::NAME, qs, vals, e));
                        0
                    }
                    Err(m) => {
                        // a panic is admissible only if some request is a K1 case
                        if !jds.iter().any(|j| j.k1().is_some()) {
                            lx.fail("C01/panic", || format!("[{}] quantiles_mut({:?}, {:?}) on {:?} panicked: {}", T::NAME, qs, c.strat, vals, m));
                        } else {
                            lx.fail(K1_KEY, || format!("bulk call panicked on a request list containing a K1 request [{}] {:?} {:?}", T::NAME, vals, qs));
                        }
                        1
                    }
                }
            });
        }
    }
}

fn dispatch1(c: &Case1, lx: &mut Local) {
    match c.ty {
        0 => run1::<i8>(c, lx),
        1 => run1::<u8>(c, lx),
        2 => run1::<i64>(c, lx),
        3 => run1::<u64>(c, lx),
        4 => run1::<N64>(c, lx),
        _ => run1::<i32>(c, lx),
    }
}

#[derive(Debug, Clone)]
struct CaseN {
    shape: Vec<usize>,
    axis: usize,
    layout: Layout,
    family: usize,
    strat: Strat,
    policy: Policy,
    ty: u8,
    stat: bool,
}

fn runn<T: QElem>(c: &CaseN, dev: u32, lx: &mut Local) {
    let lanes = lanes_flat(&c.shape, c.axis);
    let ll = c.shape[c.axis];
    let m = lanes.len();
    let n: usize = c.shape.iter().product();
    let table = T::table(0, 8);
    let wos = if ll > 0 { weak_orders(ll) } else { vec![vec![]] };
    let mut data: Vec<T> = vec![table[0].clone(); n];
    for (j, lane) in lanes.iter().enumerate() {
        let pat = &wos[(c.family * m.max(1) + j) % wos.len()];
        for (k, &fi) in lane.iter().enumerate() {
            // a per-lane offset (where the type has room) makes the lanes distinguishable, so a result stored at
            // another lane's position or taken from another lane is visible
            let base = table[pat[k] as usize].clone();
            data[fi] = if T::NAME == "u8" { base } else { base + T::from_usize(3_000_000 * (j % 5)).unwrap() };
        }
    }
    let sorted_lanes: Vec<Vec<T>> = lanes
        .iter()
        .map(|lane| {
            let mut v: Vec<T> = lane.iter().map(|&i| data[i].clone()).collect();
            v.sort();
            v
        })
        .collect();
    let grid = if ll > 0 { q_grid_small(ll) } else { vec![0.0, 0.5, 1.0] };
    let mode = PivotMode::Bounded { policy: c.policy, bound: dev };
    let ax = Axis(c.axis);
    let mut single_shape = c.shape.clone();
    single_shape.remove(c.axis);
    // single q
    for (qi, &q) in grid.iter().enumerate() {
        if (qi + c.family) % 2 == 1 && grid.len() > 6 {
            continue; // every q of the grid occurs for some family
        }
        let jds: Vec<Judge<T>> = if ll == 0 { Vec::new() } else { sorted_lanes.iter().map(|sl| Judge::new(sl, q, c.strat)).collect() };
        lx.explore(&mode, |lx| {
            let mut h = Host::new(&c.shape, &data, &c.layout, table[7].clone());
            let r = guarded(|| {
                let mut v = h.view_mut();
                if c.stat {
                    match c.shape.len() {
                        1 => nsmc::with_strategy!(c.strat, i, v.view_mut().into_dimensionality::<Ix1>().unwrap().quantile_axis_mut(ax, n64(q), i).map(|a| a.into_dyn())),
                        2 => nsmc::with_strategy!(c.strat, i, v.view_mut().into_dimensionality::<Ix2>().unwrap().quantile_axis_mut(ax, n64(q), i).map(|a| a.into_dyn())),
                        3 => nsmc::with_strategy!(c.strat, i, v.view_mut().into_dimensionality::<Ix3>().unwrap().quantile_axis_mut(ax, n64(q), i).map(|a| a.into_dyn())),
                        _ => nsmc::with_strategy!(c.strat, i, v.view_mut().into_dimensionality::<Ix4>().unwrap().quantile_axis_mut(ax, n64(q), i).map(|a| a.into_dyn())),
                    }
                } else {
                    nsmc::with_strategy!(c.strat, i, v.quantile_axis_mut(ax, n64(q), i))
                }
            });
            match r {
                Err(msg) => {
                    lx.fail("C01/panic", || format!("[{}] quantile_axis_mut panicked: {} on {:?} q={:?}", T::NAME, msg, c, q));
                    0
                }
                Ok(Err(e)) => {
                    lx.check(ll == 0, "C01/error", || format!("[{}] quantile_axis_mut returned Err({:?}) on {:?}", T::NAME, e, c));
                    1
                }
                Ok(Ok(res)) => {
                    if ll == 0 {
                        lx.fail("C01/missing-error", || format!("axis of length 0 accepted: {:?}", c));
                        return 2;
                    }
                    lx.check(res.shape() == &single_shape[..], "C01/result-shape", || format!("[{}] result shape {:?}, expected {:?} on {:?}", T::NAME, res.shape(), single_shape, c));
                    let flat: Vec<T> = res.iter().cloned().collect();
                    for (j, _sl) in sorted_lanes.iter().enumerate() {
                        if j < flat.len() {
                            record(lx, &jds[j], Some(&flat[j]), &|| format!("quantile_axis_mut lane {} of {:?}", j, c));
                        }
                    }
                    hash_of(&flat.iter().map(|v| v.key()).collect::<Vec<_>>())
                }
            }
        });
    }
    // bulk: unordered with repeats
    let qs: Vec<f64> = {
        let mut v: Vec<f64> = grid.iter().rev().cloned().step_by(2).collect();
        if let Some(&x) = grid.get(1) {
            v.push(x);
            v.insert(0, x);
        }
        v
    };
    let mut bulk_shape = c.shape.clone();
    bulk_shape[c.axis] = qs.len();
    let bj: Vec<Vec<Judge<T>>> = if ll == 0 { Vec::new() } else { qs.iter().map(|&q| sorted_lanes.iter().map(|sl| Judge::new(sl, q, c.strat)).collect()).collect() };
    lx.explore(&mode, |lx| {
        let mut h = Host::new(&c.shape, &data, &c.layout, table[7].clone());
        let qa = Array1::from(qs.iter().map(|&q| n64(q)).collect::<Vec<N64>>());
        let r = guarded(|| {
            let mut v = h.view_mut();
            nsmc::with_strategy!(c.strat, i, v.quantiles_axis_mut(ax, &qa, i))
        });
        match r {
            Err(msg) => {
                lx.fail("C01/panic", || format!("[{}] quantiles_axis_mut panicked: {} on {:?}", T::NAME, msg, c));
                0
            }
            Ok(Err(e)) => {
                lx.check(ll == 0, "C01/error", || format!("[{}] quantiles_axis_mut returned Err({:?}) on {:?}", T::NAME, e, c));
                1
            }
            Ok(Ok(res)) => {
                if ll == 0 {
                    lx.fail("C01/missing-error", || format!("axis of length 0 accepted: {:?}", c));
                    return 2;
                }
                lx.check(res.shape() == &bulk_shape[..], "C01/result-shape", || format!("[{}] bulk result shape {:?}, expected {:?} on {:?}", T::NAME, res.shape(), bulk_shape, c));
                if res.shape() == &bulk_shape[..] {
                    for (jq, _q) in qs.iter().enumerate() {
                        let slice = res.index_axis(ax, jq);
                        let flat: Vec<T> = slice.iter().cloned().collect();
                        for (j, _sl) in sorted_lanes.iter().enumerate() {
                            if j < flat.len() {
                                record(lx, &bj[jq][j], Some(&flat[j]), &|| format!("quantiles_axis_mut request #{} of {:?}, lane {} of {:?}", jq, qs, j, c));
                            }
                        }
                    }
                }
                hash_of(&res.iter().map(|v| v.key()).collect::<Vec<_>>())
            }
        }
    });
}

#[derive(Debug, Clone)]
struct LongCase {
    n: usize,
    fam: usize,
    strat: Strat,
    policy: Policy,
}

fn long_input(n: usize, fam: usize) -> Vec<i64> {
    (0..n)
        .map(|i| match fam {
            0 => i as i64,
            1 => (n - 1 - i) as i64,
            2 => (if i < n / 2 { 2 * i } else { 2 * (n - 1 - i) + 1 }) as i64,
            3 => (i % 2) as i64,
            4 => 0,
            _ => (i % 7) as i64,
        })
        .map(|r| r * 1000 - 7)
        .collect()
}

/// long lanes under adversarial pivot policies (recursion depth ~ n): single and bulk quantiles
fn run_long(c: &LongCase, lx: &mut Local) {
    let vals = long_input(c.n, c.fam);
    let mut sorted = vals.clone();
    sorted.sort();
    let grid = q_grid_small(c.n);
    let stride = (grid.len() / 10).max(1);
    let qs: Vec<f64> = grid.iter().cloned().skip(c.fam % stride).step_by(stride).chain(vec![0.0, 1.0]).collect();
    let mode = PivotMode::Bounded { policy: c.policy, bound: 0 };
    for &q in &qs {
        let jd = Judge::new(&sorted, q, c.strat);
        lx.explore(&mode, |lx| {
            let mut a = Array1::from(vals.clone());
            let r = guarded(|| nsmc::with_strategy!(c.strat, i, a.quantile_mut(n64(q), i)));
            let got = match r {
                Ok(Ok(v)) => Some(v),
                _ => None,
            };
            record(lx, &jd, got.as_ref(), &|| format!("quantile_mut on a lane of length {} (family {}) under pivot policy {:?}", c.n, c.fam, c.policy));
            hash_of(&got)
        });
    }
    let jds: Vec<Judge<i64>> = qs.iter().map(|&q| Judge::new(&sorted, q, c.strat)).collect();
    lx.explore(&mode, |lx| {
        let mut a = Array1::from(vals.clone());
        let qa = Array1::from(qs.iter().map(|&q| n64(q)).collect::<Vec<N64>>());
        let r = guarded(|| nsmc::with_strategy!(c.strat, i, a.quantiles_mut(&qa, i)));
        match r {
            Ok(Ok(res)) => {
                for (j, jd) in jds.iter().enumerate() {
                    if j < res.len() {
                        record(lx, jd, Some(&res[j]), &|| format!("quantiles_mut request #{} (q={:?}) on a lane of length {} (family {}) under pivot policy {:?}", j, qs[j], c.n, c.fam, c.policy));
                    }
                }
                hash_of(&res.to_vec())
            }
            other => {
                lx.fail("C01/panic", || format!("quantiles_mut on a long lane failed: {:?}; {:?}", other.map(|r| r.map(|_| ())), c));
                0
            }
        }
    });
}

#[derive(Debug, Clone)]
struct MatCase {
    lanes: usize,
    ll: usize,
    axis: usize,
    nq: usize,
    strat: Strat,
    policy: Policy,
    layout: usize,
}

/// several long lanes in one bulk call (scratch buffers, per-lane state, sort-the-lane paths)
fn run_mat(c: &MatCase, lx: &mut Local) {
    let shape: Vec<usize> = if c.axis == 1 { vec![c.lanes, c.ll] } else { vec![c.ll, c.lanes] };
    let n = c.lanes * c.ll;
    let lanes = lanes_flat(&shape, c.axis);
    let mut data = vec![0i64; n];
    for (j, lane) in lanes.iter().enumerate() {
        for (k, &fi) in lane.iter().enumerate() {
            // a different arrangement and a different value range per lane
            data[fi] = (((k * (7 + 2 * j) + 3 * j) % c.ll) as i64) * 10 + 1000 * j as i64 - if (k + j) % 9 == 0 { 5 } else { 0 };
        }
    }
    let sorted_lanes: Vec<Vec<i64>> = lanes.iter().map(|l| { let mut v: Vec<i64> = l.iter().map(|&i| data[i]).collect(); v.sort(); v }).collect();
    let grid = q_grid_small(c.ll);
    let qs: Vec<f64> = (0..c.nq).map(|i| grid[(i * grid.len() / c.nq + (i % 3)) % grid.len()]).collect();
    let lay = all_layouts(2, &[1, -1, 2])[c.layout].clone();
    let jds: Vec<Vec<Judge<i64>>> = qs.iter().map(|&q| sorted_lanes.iter().map(|sl| Judge::new(sl, q, c.strat)).collect()).collect();
    let ax = Axis(c.axis);
    let mut bulk_shape = shape.clone();
    bulk_shape[c.axis] = qs.len();
    lx.explore(&PivotMode::Bounded { policy: c.policy, bound: 0 }, |lx| {
        let mut h = Host::new(&shape, &data, &lay, -99i64);
        let qa = Array1::from(qs.iter().map(|&q| n64(q)).collect::<Vec<N64>>());
        let r = guarded(|| {
            let mut v = h.view_mut();
            nsmc::with_strategy!(c.strat, i, v.quantiles_axis_mut(ax, &qa, i))
        });
        match r {
            Ok(Ok(res)) => {
                if !lx.check(res.shape() == &bulk_shape[..], "C01/result-shape", || format!("bulk result shape {:?}, expected {:?}; {:?}", res.shape(), bulk_shape, c)) {
                    return 0;
                }
                for (jq, _) in qs.iter().enumerate() {
                    let flat: Vec<i64> = res.index_axis(ax, jq).iter().cloned().collect();
                    for (j, _) in sorted_lanes.iter().enumerate() {
                        record(lx, &jds[jq][j], Some(&flat[j]), &|| format!("quantiles_axis_mut request #{} (q={:?}) of {}, lane {} of {:?}", jq, qs[jq], qs.len(), j, c));
                    }
                }
                hash_of(&res.iter().cloned().collect::<Vec<_>>())
            }
            other => {
                lx.fail("C01/panic", || format!("quantiles_axis_mut failed: {:?}; {:?}", other.map(|r| r.map(|_| ())), c));
                0
            }
        }
    });
    // the single-q form on the same array, for the first and last request
    for &q in [qs[0], qs[qs.len() - 1]].iter() {
        lx.explore(&PivotMode::Bounded { policy: c.policy, bound: 0 }, |lx| {
            let mut h = Host::new(&shape, &data, &lay, -99i64);
            let r = guarded(|| {
                let mut v = h.view_mut();
                nsmc::with_strategy!(c.strat, i, v.quantile_axis_mut(ax, n64(q), i))
            });
            match r {
                Ok(Ok(res)) => {
                    let flat: Vec<i64> = res.iter().cloned().collect();
                    for (j, sl) in sorted_lanes.iter().enumerate() {
                        if j < flat.len() {
                            record(lx, &Judge::new(sl, q, c.strat), Some(&flat[j]), &|| format!("quantile_axis_mut(q={:?}) lane {} of {:?}", q, j, c));
                        }
                    }
                    hash_of(&flat)
                }
                other => {
                    lx.fail("C01/panic", || format!("quantile_axis_mut failed: {:?}; {:?}", other.map(|r| r.map(|_| ())), c));
                    0
                }
            }
        });
    }
}

fn main() {
    let mut rep = Report::new("C01");
    rep.rule = "case = (weak-order pattern, value table, element type, strategy, single/bulk) in 1-D with the q grid and all pivot sequences inside; (shape, axis, layout, content family, strategy, pivot policy, type) in n-D; non-trivial = lane length >= 2".into();
    rep.assume("selection only compares, so all weak-order patterns of a length realise every lane of that length; the interpolation arithmetic is exercised on two value tables per type (spread values, extremes of the type)");
    rep.assume("position (N-1)q: a result matching either the exact reading of the double q or the rounded double product of the documented formula is accepted (they differ only within rounding distance of an index boundary or .5 fraction); Nearest at an exact .5 accepts either neighbour");
    rep.assume("integer Midpoint/Linear: within one unit of the exact value and inside [lower, higher]; N64 Midpoint/Linear: within 4u(|lower|+|higher|) of the exact value");
    let nmax = rep.cfg.pick(5, 6);
    let mut cases: Vec<Case1> = Vec::new();
    for n in 1..=nmax {
        for pat in weak_orders(n) {
            for ty in 0..6u8 {
                for table in 0..2u8 {
                    // i32 only on the extremes table (shares all code with i8/i64)
                    if ty == 5 && table == 0 {
                        continue;
                    }
                    for &strat in &Strat::ALL {
                        // selecting strategies never look at values: one table is enough for them
                        if strat.selecting() && table == 1 {
                            continue;
                        }
                        cases.push(Case1 { pat: pat.clone(), table, ty, strat, bulk: false });
                        if n <= 4 || table == 0 {
                            cases.push(Case1 { pat: pat.clone(), table, ty, strat, bulk: true });
                        }
                    }
                }
            }
        }
    }
    rep.run_sub(
        "one-dimensional",
        &format!("all weak-order patterns of length 1..={} x value tables (spread, type extremes; 64-bit Linear: extremes below 2^52) x i8/u8/i64/u64/N64/i32 x 5 strategies x q grid (0, 1, every k/(2(N-1)) and its +-1, +-2 ulp neighbours, quarter points) x ALL pivot sequences; quantile_mut on contiguous/stepped/reversed views and quantiles_mut with ascending / descending-with-repeats / shuffled / empty request lists", nmax),
        cases.into_iter(),
        |c, lx| {
            lx.nontrivial(c.pat.len() >= 2);
            dispatch1(c, lx);
        },
    );

    let thorough = rep.cfg.thorough();
    let dev = rep.cfg.pick(1, 2);
    let shapes: Vec<Vec<usize>> = vec![vec![4], vec![2, 3], vec![3, 2], vec![3, 1], vec![0, 3], vec![3, 2, 2], vec![2, 2, 3], vec![2, 2, 2, 2], vec![2, 3, 1, 2]];
    let mut cases: Vec<CaseN> = Vec::new();
    for shape in &shapes {
        let d = shape.len();
        let st = [1isize, 2, -1, -2];
        let layouts = if d == 4 && !thorough { covering_layouts(d, &st) } else { all_layouts(d, &st) };
        for axis in 0..d {
            let ll = shape[axis];
            let m: usize = (shape.iter().product::<usize>() / ll.max(1)).max(1);
            let nwo = if ll > 0 { weak_orders(ll).len() } else { 1 };
            let fams = (nwo + m - 1) / m;
            for (li, l) in layouts.iter().enumerate() {
                for f in 0..fams {
                    for (si, &strat) in Strat::ALL.iter().enumerate() {
                        // types and policies rotate over (layout, family, strategy)
                        let ty = ((li + f + si) % 3) as u8;
                        let policy = Policy::ALL[(li + f * 2 + si) % 3];
                        cases.push(CaseN { shape: shape.clone(), axis, layout: l.clone(), family: f, strat, policy, ty, stat: (li + f) % 2 == 0 });
                    }
                }
            }
        }
    }
    rep.run_sub(
        "n-dimensional",
        &format!("shapes {:?} x every axis x all layouts (4-D: {}) x content families covering every weak-order pattern of the lane length x 5 strategies x quantile_axis_mut (boundary q grid) and quantiles_axis_mut (unordered list with repeats) x element types i64/N64/u8 and pivot policies rotating x <= {} deviations; static and dynamic dimensionality alternate", shapes, if thorough { "all" } else { "covering subset" }, dev),
        cases.into_iter(),
        move |c, lx| {
            lx.nontrivial(c.shape[c.axis] >= 2);
            match c.ty {
                0 => runn::<i64>(c, dev, lx),
                1 => runn::<N64>(c, dev, lx),
                _ => runn::<u8>(c, dev, lx),
            }
        },
    );
    let mut mcases: Vec<MatCase> = Vec::new();
    let lls: Vec<usize> = if rep.cfg.thorough() { vec![9, 16, 17, 18, 31, 32, 33, 34, 40, 63, 64, 65, 66, 70, 100, 129, 200] } else { vec![16, 17, 18, 32, 33, 34, 40, 65, 70, 129] };
    for &ll in &lls {
        for lanes in [2usize, 3] {
            for axis in 0..2usize {
                for &nq in &[3usize, 10, 20, 40, 70] {
                    if nq > 2 * ll {
                        continue;
                    }
                    for (si, &strat) in Strat::ALL.iter().enumerate() {
                        let policy = [Policy::Middle, Policy::First, Policy::Last][(si + nq + ll) % 3];
                        mcases.push(MatCase { lanes, ll, axis, nq, strat, policy, layout: (ll + lanes + axis + nq + si) % 24 });
                    }
                }
            }
        }
    }
    rep.run_sub(
        "several-long-lanes-bulk",
        &format!("2 and 3 lanes of length {:?} along either axis of a 2-D array (layout rotating over 24 layouts) x bulk request lists of 3, 10, 20, 40, 70 q values from the boundary grid x 5 strategies x pivot policy rotating: every entry of quantiles_axis_mut against the sort-based reference of ITS lane; quantile_axis_mut for the first and last request", lls),
        mcases.into_iter(),
        |c, lx| {
            lx.nontrivial(true);
            run_mat(c, lx)
        },
    );
    let nlong = rep.cfg.pick(140, 256);
    let cases = (13..=nlong).flat_map(|n| (0..6usize).flat_map(move |fam| Policy::ADVERSARIAL.iter().enumerate().map(move |(pi, &policy)| LongCase { n, fam, strat: Strat::ALL[(n + fam + pi) % 5], policy }).collect::<Vec<_>>()));
    rep.run_sub(
        "long-lanes-adversarial-policies",
        &format!("every lane length 13..={} x 6 input families (increasing, decreasing, organ pipe, two-valued, all equal, sawtooth) x policies first / last / parity-alternating ends / middle / second / second-to-last (0 deviations: recursion depth up to n-1) x ~12 q from the boundary grid x strategy rotating; quantile_mut and quantiles_mut on i64", nlong),
        cases,
        |c, lx| {
            lx.nontrivial(true);
            run_long(c, lx)
        },
    );
    // one lane longer than 2^24 + 1 elements (positions that single precision cannot hold)
    rep.run_sub(
        "huge-lane",
        "one lane of 2^24 + 2 distinct u32 values (increasing; middle pivots): Lower / Higher / Linear at q = 0, 1/2, 1 - the minimum, the two middle elements (their mean), the maximum",
        std::iter::once((1usize << 24) + 2),
        |n, lx| {
            use ndarray_stats::interpolate::{Higher, Linear, Lower};
            lx.nontrivial(true);
            let n = *n;
            lx.single(|lx| {
                let base: Array1<u32> = Array1::from_iter(0..n as u32);
                let mut obs = Vec::new();
                let mid = ((n - 1) / 2) as u32; // (N-1)/2 = mid + 1/2
                for (q, lo, hi, lin) in [(0.0, 0u32, 0u32, 0u32), (1.0, n as u32 - 1, n as u32 - 1, n as u32 - 1), (0.5, mid, mid + 1, mid)] {
                    for strat in 0..3u8 {
                        let mut a = base.clone();
                        let r = guarded(|| match strat {
                            0 => a.quantile_mut(n64(q), &Lower),
                            1 => a.quantile_mut(n64(q), &Higher),
                            _ => a.quantile_mut(n64(q), &Linear),
                        });
                        let want = [lo, hi, lin][strat as usize];
                        match r {
                            Ok(Ok(v)) => {
                                lx.check(v == want, "C01/wrong-value", || format!("lane of {} elements 0..: quantile_mut({}, {}) = {}, expected {}", n, q, ["Lower", "Higher", "Linear"][strat as usize], v, want));
                                obs.push(v);
                            }
                            other => lx.fail("C01/panic", || format!("lane of {} elements: quantile_mut({}) failed: {:?}", n, q, other)),
                        }
                    }
                }
                hash_of(&obs)
            });
        },
    );
    rep.finish();
}
