//! C05 — min / max / argmin / argmax designate a true extremum or the right error.
use ndarray::prelude::*;
use ndarray::{Data, Dimension, IntoDimension};
use ndarray_stats::errors::MinMaxError;
use ndarray_stats::QuantileExt;
use nsmc::layouts::{all_layouts, covering_layouts, Host, Host1, Layout};
use nsmc::patterns::{sequences, weak_orders};
use nsmc::*;
use std::fmt::Debug;

trait Elem: PartialOrd + Clone + Debug + Send + Sync + 'static {
    fn is_nan_(&self) -> bool;
    fn bits(&self) -> u64;
}
/// the crate's own ordered wrapper of a non-missing `Option<i32>`
type NotNoneI32 = <Option<i32> as ndarray_stats::MaybeNan>::NotNan;
impl Elem for f64 {
    fn is_nan_(&self) -> bool {
        self.is_nan()
    }
    fn bits(&self) -> u64 {
        self.to_bits()
    }
}
impl Elem for f32 {
    fn is_nan_(&self) -> bool {
        self.is_nan()
    }
    fn bits(&self) -> u64 {
        self.to_bits() as u64
    }
}
impl Elem for i32 {
    fn is_nan_(&self) -> bool {
        false
    }
    fn bits(&self) -> u64 {
        *self as u32 as u64
    }
}

/// Checks the four routines on one array; returns an observation hash.
fn check_all<T: Elem, S: Data<Elem = T>, D: Dimension>(a: &ArrayBase<S, D>, tag: &str, lx: &mut Local) -> u64 {
    check_all_with(a, tag, &|x: &T| x.is_nan_(), &|x: &T| x.bits(), &|x: &T, y: &T| x <= y, &|x: &T, y: &T| x == y, lx)
}

/// `le` / `eq`: the harness's own order and equality on the element type (the type's operators for the
/// primitive types; the wrapped integers for the crate's `NotNone`, whose hand-written comparison impls
/// are part of what is checked).
#[allow(clippy::too_many_arguments)]
fn check_all_with<T: PartialOrd + Clone + Debug, S: Data<Elem = T>, D: Dimension>(
    a: &ArrayBase<S, D>,
    tag: &str,
    is_nan: &dyn Fn(&T) -> bool,
    bits: &dyn Fn(&T) -> u64,
    le: &dyn Fn(&T, &T) -> bool,
    eq: &dyn Fn(&T, &T) -> bool,
    lx: &mut Local,
) -> u64 {
    let elems: Vec<T> = a.iter().cloned().collect();
    let empty = elems.is_empty();
    let has_nan = elems.iter().any(|e| is_nan(e));
    let desc = || format!("{} shape {:?} strides {:?} logical content {:?}", tag, a.shape(), a.strides(), elems);
    let mut obs: Vec<String> = Vec::new();

    // expected error class
    let want_err = if empty {
        Some(MinMaxError::EmptyInput)
    } else if has_nan {
        Some(MinMaxError::UndefinedOrder)
    } else {
        None
    };
    for is_min in [true, false] {
        let name = if is_min { "min" } else { "max" };
        let argr = guarded(|| if is_min { QuantileExt::argmin(a) } else { QuantileExt::argmax(a) });
        let valr = guarded(|| if is_min { QuantileExt::min(a).map(|x| x.clone()) } else { QuantileExt::max(a).map(|x| x.clone()) });
        let (argr, valr) = match (argr, valr) {
            (Ok(x), Ok(y)) => (x, y),
            (x, y) => {
                lx.fail("C05/panic", || format!("arg{}/{} panicked ({:?} / {:?}) on {}", name, name, x.err(), y.err(), desc()));
                continue;
            }
        };
        let extremal = |v: &T| elems.iter().all(|e| if is_min { le(v, e) } else { le(e, v) });
        match (&argr, &want_err) {
            (Ok(p), None) => {
                let idx: Vec<usize> = p.clone().into_dimension().slice().to_vec();
                let in_bounds = idx.len() == a.ndim() && idx.iter().zip(a.shape()).all(|(i, s)| i < s);
                if !lx.check(in_bounds, "C05/arg-index-out-of-bounds", || format!("arg{} returned {:?} on {}", name, idx, desc())) {
                    continue;
                }
                let v = a[p.clone().into_dimension()].clone();
                lx.check(extremal(&v), "C05/arg-not-extremal", || format!("arg{} returned {:?} (value {:?}) which is not an extremum of {}", name, idx, v, desc()));
                if let Ok(val) = &valr {
                    lx.check(eq(&v, val), "C05/arg-and-value-disagree", || format!("a[arg{}] = {:?} but {} = {:?} on {}", name, v, name, val, desc()));
                }
                obs.push(format!("{:?}", bits(&v)));
            }
            (Err(e), Some(w)) => {
                lx.check(e == w, "C05/wrong-error", || format!("arg{} returned Err({:?}), expected Err({:?}) on {}", name, e, w, desc()));
                obs.push(format!("{:?}", e));
            }
            (Ok(p), Some(w)) => lx.fail("C05/missing-error", || format!("arg{} returned Ok({:?}), expected Err({:?}) on {}", name, p, w, desc())),
            (Err(e), None) => lx.fail("C05/spurious-error", || format!("arg{} returned Err({:?}) on {}", name, e, desc())),
        }
        match (&valr, &want_err) {
            (Ok(v), None) => {
                lx.check(extremal(v), "C05/value-not-extremal", || format!("{} returned {:?} which is not an extremum of {}", name, v, desc()));
                lx.check(elems.iter().any(|e| eq(e, v)), "C05/value-not-an-element", || format!("{} returned {:?} which is not an element of {}", name, v, desc()));
            }
            (Err(e), Some(w)) => {
                lx.check(e == w, "C05/wrong-error", || format!("{} returned Err({:?}), expected Err({:?}) on {}", name, e, w, desc()));
            }
            (Ok(v), Some(w)) => lx.fail("C05/missing-error", || format!("{} returned Ok({:?}), expected Err({:?}) on {}", name, v, w, desc())),
            (Err(e), None) => lx.fail("C05/spurious-error", || format!("{} returned Err({:?}) on {}", name, e, desc())),
        }
    }
    hash_of(&obs)
}

/// Runs check_all on the dynamic-dimensional view and on the statically dimensioned one.
fn check_dyn_and_static<T: Elem>(v: ArrayViewD<'_, T>, tag: &str, lx: &mut Local) -> u64 {
    let h1 = check_all(&v, &format!("{} IxDyn", tag), lx);
    let t = format!("{} IxN", tag);
    let h2 = match v.ndim() {
        0 => check_all(&v.clone().into_dimensionality::<Ix0>().unwrap(), &t, lx),
        1 => check_all(&v.clone().into_dimensionality::<Ix1>().unwrap(), &t, lx),
        2 => check_all(&v.clone().into_dimensionality::<Ix2>().unwrap(), &t, lx),
        3 => check_all(&v.clone().into_dimensionality::<Ix3>().unwrap(), &t, lx),
        4 => check_all(&v.clone().into_dimensionality::<Ix4>().unwrap(), &t, lx),
        _ => unreachable!(),
    };
    if h1 != h2 {
        lx.fail("C05/dyn-vs-static", || format!("IxDyn and IxN views of the same array gave different observations ({})", tag));
    }
    h1
}

const F64A: [f64; 7] = [f64::NAN, f64::NEG_INFINITY, -1.0, -0.0, 0.0, 1.0, f64::INFINITY];

#[derive(Debug, Clone)]
struct Case1 {
    digits: Vec<u8>,
}

#[derive(Debug, Clone)]
struct CaseN {
    shape: Vec<usize>,
    layout: Layout,
    fill: u8,
    nan_at: Option<usize>,
}

fn main() {
    let mut rep = Report::new("C05");
    rep.rule = "case = (array over the float alphabet {NaN,-inf,-1,-0.0,0.0,1,+inf} or integer weak-order pattern, view stride) in 1-D, (shape, layout, fill, NaN position) in n-D; non-trivial = at least 2 elements".into();
    rep.assume("min/max/argmin/argmax only compare elements (partial_cmp), so the 7-value alphabet realises every comparison outcome class incl. NaN, signed zeros and infinities");
    let lmax = rep.cfg.pick(6, 7);
    let cases = (0..=lmax).flat_map(|l| sequences(l, 7)).map(|d| Case1 { digits: d });
    rep.run_sub(
        "float-1d",
        &format!("every f64 and f32 array of length 0..={} over {{NaN,-inf,-1,-0.0,0.0,1,+inf}} x strides {{1,2,-1,-3}}, static and dynamic dimensionality", lmax),
        cases,
        |c, lx| {
            lx.nontrivial(c.digits.len() >= 2);
            if c.digits.contains(&0) {
                lx.count("arrays_containing_nan", 1);
            }
            let v64: Vec<f64> = c.digits.iter().map(|&d| F64A[d as usize]).collect();
            let v32: Vec<f32> = v64.iter().map(|&x| x as f32).collect();
            for step in [1isize, 2, -1, -3] {
                lx.single(|lx| {
                    let h = Host1::new(&v64, step, 1, 777.0);
                    let a = check_dyn_and_static(h.view().into_dyn(), &format!("f64 step {}", step), lx);
                    let h = Host1::new(&v32, step, 1, 777.0);
                    let b = check_dyn_and_static(h.view().into_dyn(), &format!("f32 step {}", step), lx);
                    hash_of(&(a, b))
                });
            }
        },
    );
    let imax = rep.cfg.pick(6, 7);
    let mut pats = vec![vec![]];
    pats.extend((1..=imax).flat_map(weak_orders));
    rep.run_sub(
        "int-1d",
        &format!("every weak-order pattern of length 0..={} as i32 x strides {{1,2,-1}}, and (length <= 5) as NotNone<i32>, judged through the wrapped integers", imax),
        pats.into_iter().map(|d| Case1 { digits: d }),
        |c, lx| {
            lx.nontrivial(c.digits.len() >= 2);
            let table = [i32::MIN, -5, 0, 1, 7, 100, i32::MAX - 1, i32::MAX];
            let v: Vec<i32> = c.digits.iter().map(|&d| table[d as usize]).collect();
            for step in [1isize, 2, -1] {
                lx.single(|lx| {
                    let h = Host1::new(&v, step, 1, 55);
                    check_dyn_and_static(h.view().into_dyn(), &format!("i32 step {}", step), lx)
                });
            }
            // the same patterns as arrays of NotNone<i32> (the element type of a lane of Option<i32> once its
            // missing values are removed): min / max / argmin / argmax go through its partial_cmp
            if c.digits.len() <= 5 {
                use ndarray_stats::MaybeNan;
                let nn: Vec<NotNoneI32> = v.iter().map(|&x| Some(x).try_as_not_nan().unwrap().clone()).collect();
                lx.single(|lx| {
                    let a = Array1::from(nn.clone());
                    let (isn, bits, le, eq) = (|_: &NotNoneI32| false, |x: &NotNoneI32| **x as u32 as u64, |x: &NotNoneI32, y: &NotNoneI32| **x <= **y, |x: &NotNoneI32, y: &NotNoneI32| **x == **y);
                    let h1 = check_all_with(&a, "NotNone<i32> Ix1", &isn, &bits, &le, &eq, lx);
                    let h2 = check_all_with(&a.view().into_dyn(), "NotNone<i32> IxDyn", &isn, &bits, &le, &eq, lx);
                    hash_of(&(h1, h2))
                });
            }
        },
    );

    // n-D: shapes x layouts x fills x NaN position
    let shapes: Vec<Vec<usize>> = vec![vec![], vec![0], vec![1], vec![0, 3], vec![3, 0], vec![2, 0, 2], vec![2, 3], vec![3, 2], vec![1, 4], vec![3, 1], vec![4, 1], vec![3, 2, 2], vec![2, 2, 3], vec![2, 2, 1], vec![3, 2, 4], vec![2, 2, 2, 2], vec![2, 1, 3, 2], vec![2, 3, 2, 1]];
    let thorough = rep.cfg.thorough();
    let mut cases: Vec<CaseN> = Vec::new();
    for shape in &shapes {
        let d = shape.len();
        let steps = [1isize, 2, -1, -2];
        let layouts = if d == 4 && !thorough && false { covering_layouts(d, &steps) } else { all_layouts(d, &steps) };
        let n: usize = shape.iter().product();
        for l in layouts {
            for fill in 0..4u8 {
                cases.push(CaseN { shape: shape.clone(), layout: l.clone(), fill, nan_at: None });
                for p in 0..n {
                    cases.push(CaseN { shape: shape.clone(), layout: l.clone(), fill, nan_at: Some(p) });
                }
            }
        }
    }
    rep.run_sub(
        "nd-layouts",
        &format!("shapes {:?} x {} layouts (axis permutation x steps {{1,2,-1,-2}} x offset; 4-D: {}) x fills {{all ties, increasing, decreasing, zig-zag with signed zeros}} x NaN at no / every logical position; f64, static and dynamic dimensionality", shapes, "all", if thorough { "all 6144+" } else { "all 6144+" }),
        cases.into_iter(),
        |c, lx| {
            let n: usize = c.shape.iter().product();
            lx.nontrivial(n >= 2);
            let mut data: Vec<f64> = (0..n)
                .map(|i| match c.fill {
                    0 => 3.0,
                    1 => i as f64,
                    2 => -(i as f64),
                    _ => {
                        if i % 2 == 0 {
                            if i % 4 == 0 {
                                0.0
                            } else {
                                -0.0
                            }
                        } else {
                            (i % 3) as f64 - 1.0
                        }
                    }
                })
                .collect();
            if let Some(p) = c.nan_at {
                data[p] = f64::NAN;
                lx.count("arrays_containing_nan", 1);
            }
            if n == 0 {
                lx.count("arrays_without_elements", 1);
            }
            lx.single(|lx| {
                let h = Host::new(&c.shape, &data, &c.layout, 777.0);
                check_dyn_and_static(h.view(), "f64 nd", lx)
            });
        },
    );
    // the strict extremum at every logical position in turn (3-D / 4-D index arithmetic), and long 1-D arrays
    let mut ecases: Vec<(Vec<usize>, usize, usize, bool)> = Vec::new();
    for shape in [vec![3usize, 2, 4], vec![2, 3, 2], vec![4, 3], vec![2, 2, 2, 3], vec![5, 1, 2]] {
        let n: usize = shape.iter().product();
        let nl = all_layouts(shape.len(), &[1, -1]).len();
        for pos in 0..n {
            for li in 0..nl {
                ecases.push((shape.clone(), pos, li, (pos + li) % 2 == 0));
            }
        }
    }
    rep.run_sub(
        "extremum-at-every-position",
        "shapes (3,2,4), (2,3,2), (4,3), (2,2,2,3), (5,1,2) x the strict minimum (resp. maximum) placed at every logical position in turn x all contiguous / reversed / permuted layouts (steps +-1, with and without offset), IxN and IxDyn",
        ecases.into_iter(),
        |c, lx| {
            let (shape, pos, li, is_min) = c;
            lx.nontrivial(true);
            let n: usize = shape.iter().product();
            let data: Vec<f64> = (0..n).map(|i| if i == *pos { if *is_min { -50.0 } else { 50.0 } } else { ((i * 7) % 5) as f64 }).collect();
            let l = all_layouts(shape.len(), &[1, -1])[*li].clone();
            lx.single(|lx| {
                let h = Host::new(shape, &data, &l, 777.0);
                check_dyn_and_static(h.view(), "extremum sweep", lx)
            });
        },
    );
    let smax = rep.cfg.pick(1100, 4100);
    let lcases = nsmc::patterns::sizes(16, smax).into_iter().filter(|&n| n >= 2).flat_map(|n| {
        let mut pos: Vec<usize> = vec![0, 1, n / 2, n - 2, n - 1];
        pos.extend([15usize, 16, 17, 31, 32, 33, 63, 64, 65, 127, 128, 129, 255, 256, 257].iter().cloned().filter(|&p| p < n));
        pos.sort();
        pos.dedup();
        pos.into_iter().flat_map(move |p| (0..3u8).map(move |kind| (n, p, kind)))
    });
    rep.run_sub(
        "long-arrays",
        &format!("every length 2..=16 and block threshold neighbourhoods up to {} x {{strict minimum, strict maximum, NaN}} placed at the ends, the middle and around every multiple of 16/32/64/128/256 x strides {{1,-1,2}}", smax),
        lcases,
        |c, lx| {
            let (n, p, kind) = *c;
            lx.nontrivial(true);
            let data: Vec<f64> = (0..n).map(|i| if i == p { [-1e9, 1e9, f64::NAN][kind as usize] } else { ((i * 13) % 101) as f64 }).collect();
            lx.single(|lx| {
                let h = Host1::new(&data, [1isize, -1, 2][(n + p) % 3], 1, 777.0);
                check_dyn_and_static(h.view().into_dyn(), "long array", lx)
            });
        },
    );
    rep.finish();
}
