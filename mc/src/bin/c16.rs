//! C16 — out-of-range positions are always rejected, in-range ones never are.
use ndarray::prelude::*;
use ndarray_stats::histogram::{Bins, Edges, Grid};
use ndarray_stats::Sort1dExt;
use nsmc::patterns::{sequences, weak_orders};
use nsmc::*;

const SPREAD: [i32; 10] = [-7, 0, 3, 10, 11, 12, 100, 101, 1000, 5000];

#[derive(Debug, Clone)]
enum Op {
    Get(usize),
    Many(Vec<usize>),
    Partition(usize),
}

#[derive(Debug, Clone)]
struct Case {
    pat: Vec<u8>,
    op: Op,
}

fn oor_positions(n: usize) -> Vec<usize> {
    vec![n, n + 1, n + 7, usize::MAX / 2, (1usize << 63) - 1, 1usize << 63, (1usize << 63) + 1, usize::MAX - 5, usize::MAX - 4, usize::MAX - 3, usize::MAX - 2, usize::MAX - 1, usize::MAX]
}

fn body(c: &Case, lx: &mut Local) {
    let n = c.pat.len();
    let vals: Vec<i32> = c.pat.iter().map(|&r| SPREAD[r as usize]).collect();
    let in_range = match &c.op {
        Op::Get(i) => *i < n,
        Op::Many(v) => v.iter().all(|i| *i < n),
        Op::Partition(p) => *p < n,
    };
    lx.nontrivial(!in_range || n >= 2);
    lx.count(if in_range { "in_range_cases" } else { "out_of_range_cases" }, 1);
    lx.explore(&PivotMode::All, |lx| {
        let mut a = Array1::from(vals.clone());
        let r: Result<String, String> = match &c.op {
            Op::Get(i) => guarded(|| format!("{:?}", a.get_from_sorted_mut(*i))),
            Op::Many(v) => {
                let ix = Array1::from(v.clone());
                guarded(|| format!("{:?}", a.get_many_from_sorted_mut(&ix)))
            }
            Op::Partition(p) => guarded(|| format!("{:?}", a.partition_mut(*p))),
        };
        match (&r, in_range) {
            (Ok(v), false) => lx.fail("C16/out-of-range-accepted", || format!("{:?} on {:?} (length {}) returned {} instead of panicking", c.op, vals, n, v)),
            (Err(msg), true) => lx.fail("C16/in-range-panic", || format!("{:?} on {:?} (length {}) panicked: {}", c.op, vals, n, msg)),
            _ => {}
        }
        lx.count(if r.is_ok() { "executions_returning" } else { "executions_unwinding" }, 1);
        // the observation is what this property is about: the verdict, and the answer of an accepted call
        // (what a rejected call leaves in the array is not part of it)
        hash_of(&r.clone().ok())
    });
}

#[derive(Debug, Clone)]
struct BinsCase {
    edges: Vec<u8>,
    i: usize,
}

#[derive(Debug, Clone)]
struct GridCase {
    axes: Vec<usize>, // index into EDGE_SETS
    index: Vec<usize>,
}

const EDGE_SETS: [&[i32]; 4] = [&[], &[0], &[0, 4], &[0, 4, 8]];

fn main() {
    let mut rep = Report::new("C16");
    rep.rule = "case = (weak-order pattern of length 0..N, operation with an in-range or out-of-range position / index list); executions = every pivot sequence; non-trivial = out-of-range request, or in-range on length >= 2".into();
    rep.assume("a call 'unwinds' iff catch_unwind observes a panic; the harness binary is built once without and once with debug assertions + overflow checks and both are run in every tier");
    let nmax = rep.cfg.pick(6, 7);
    let nmany = rep.cfg.pick(5, 6);
    let mut pats: Vec<Vec<u8>> = vec![vec![]];
    pats.extend((1..=nmax).flat_map(weak_orders));
    let cases = pats.into_iter().flat_map(move |pat| {
        let n = pat.len();
        let mut ops: Vec<Op> = Vec::new();
        for i in 0..n {
            ops.push(Op::Get(i));
            ops.push(Op::Partition(i));
        }
        for i in oor_positions(n) {
            ops.push(Op::Get(i));
            ops.push(Op::Partition(i));
        }
        if n <= nmany {
            for mask in 0u32..(1 << n) {
                let set: Vec<usize> = (0..n).filter(|i| mask >> i & 1 == 1).collect();
                ops.push(Op::Many(set.clone()));
                // one out-of-range entry at every position
                for &o in &[n, n + 1, usize::MAX] {
                    for pos in 0..=set.len() {
                        let mut v = set.clone();
                        v.insert(pos, o);
                        ops.push(Op::Many(v));
                    }
                }
                // two out-of-range entries: front+back, and adjacent in the middle
                let mut v = set.clone();
                v.insert(0, n);
                v.push(usize::MAX);
                ops.push(Op::Many(v));
                let mut v = set.clone();
                let mid = set.len() / 2;
                v.insert(mid, n + 1);
                v.insert(mid, n);
                ops.push(Op::Many(v));
                // repeated out-of-range entry
                let mut v = set.clone();
                v.push(n);
                v.push(n);
                ops.push(Op::Many(v));
            }
        }
        ops.into_iter().map(move |op| Case { pat: pat.clone(), op })
    });
    rep.run_sub(
        "selection-and-partition",
        &format!("all weak-order patterns of length 0..={} x get_from_sorted_mut / partition_mut at every in-range position and at n, n+1, n+7, MAX/2, 2^63-1, 2^63, 2^63+1, MAX-5..=MAX; get_many_from_sorted_mut (length <= {}) for every subset alone and with one out-of-range entry (n, n+1, MAX) at every position, two out-of-range entries, a repeated one; ALL pivot sequences", nmax, nmany),
        cases,
        body,
    );

    // long request lists (dense-request paths) with one out-of-range entry somewhere
    let lcases = [33usize, 40, 64, 65, 100, 130].iter().flat_map(|&n| {
        (0..4u8).flat_map(move |kind| {
            let req: Vec<usize> = match kind {
                0 => (0..n).collect(),                   // every position
                1 => (0..n).rev().step_by(2).collect(), // half of them, decreasing
                2 => (0..n).map(|i| (i * 7) % n).collect(), // permutation (or with repeats)
                _ => (0..n / 3 + 1).collect(),
            };
            let mut out: Vec<Case> = vec![Case { pat: (0..n).map(|i| (i % 5) as u8).collect(), op: Op::Many(req.clone()) }];
            for oor in [n, n + 1, usize::MAX] {
                for pos in [0usize, req.len() / 2, req.len()] {
                    let mut r = req.clone();
                    r.insert(pos, oor);
                    out.push(Case { pat: (0..n).map(|i| (i % 5) as u8).collect(), op: Op::Many(r) });
                }
            }
            out
        })
    });
    // call histories: the routines are stateless by contract, so the verdict of a call (returns / panics)
    // must not depend on the calls made before it on the same thread. Every sequence of 2 (3) calls.
    let menu: Vec<(usize, Op)> = (0..=3usize)
        .flat_map(|n| {
            let mut ops: Vec<Op> = Vec::new();
            for i in (0..=n + 1).chain([usize::MAX]) {
                ops.push(Op::Get(i));
                ops.push(Op::Partition(i));
            }
            for l in [vec![], vec![0], vec![1], vec![0, 1], vec![2], vec![1, 0], vec![3], vec![0, 3], vec![2, 2], vec![usize::MAX]] {
                ops.push(Op::Many(l));
            }
            ops.into_iter().map(move |op| (n, op))
        })
        .collect();
    let bulk_only: Vec<(usize, Op)> = menu.iter().filter(|(_, op)| matches!(op, Op::Many(_))).cloned().collect();
    let thorough = rep.cfg.thorough();
    let mut hcases: Vec<Vec<(usize, Op)>> = Vec::new();
    for a in &menu {
        for b in &menu {
            hcases.push(vec![a.clone(), b.clone()]);
        }
    }
    let third: &Vec<(usize, Op)> = if thorough { &menu } else { &bulk_only };
    for a in third {
        for b in third {
            for c in third {
                hcases.push(vec![a.clone(), b.clone(), c.clone()]);
            }
        }
    }
    rep.run_sub(
        "call-histories",
        &format!("every sequence of 2 calls from a menu of {} (array of length 0..=3; get_from_sorted_mut / partition_mut at 0..=n+1 and MAX; get_many_from_sorted_mut with 10 request lists, in and out of range, repeats, empty), and every sequence of 3 calls from {} of them, executed on one thread: each call returns iff its own arguments are in range, whatever was asked before (in particular: the same request on a shorter array, a request after a rejected one)", menu.len(), if thorough { "all" } else { "the bulk requests" }),
        hcases.into_iter(),
        |h, lx| {
            lx.nontrivial(true);
            let pol = [Policy::Middle, Policy::First, Policy::Last][h.len() % 3];
            lx.explore(&PivotMode::Bounded { policy: pol, bound: 0 }, |lx| {
                let mut obs = Vec::new();
                for (step, (n, op)) in h.iter().enumerate() {
                    let n = *n;
                    let vals: Vec<i32> = (0..n).map(|i| SPREAD[n - 1 - i]).collect();
                    let in_range = match op {
                        Op::Get(i) => *i < n,
                        Op::Many(v) => v.iter().all(|i| *i < n),
                        Op::Partition(p) => *p < n,
                    };
                    let mut a = Array1::from(vals.clone());
                    let r: Result<String, String> = match op {
                        Op::Get(i) => guarded(|| format!("{:?}", a.get_from_sorted_mut(*i))),
                        Op::Many(v) => {
                            let ix = Array1::from(v.clone());
                            guarded(|| format!("{:?}", a.get_many_from_sorted_mut(&ix)))
                        }
                        Op::Partition(p) => guarded(|| format!("{:?}", a.partition_mut(*p))),
                    };
                    match (&r, in_range) {
                        (Ok(v), false) => lx.fail("C16/out-of-range-accepted", || format!("call {} of the history {:?}: {:?} on an array of length {} returned {} instead of panicking", step + 1, h, op, n, v)),
                        (Err(msg), true) => lx.fail("C16/in-range-panic", || format!("call {} of the history {:?}: {:?} on an array of length {} panicked: {}", step + 1, h, op, n, msg)),
                        _ => {}
                    }
                    obs.push(r.is_ok());
                }
                hash_of(&obs)
            });
        },
    );

    rep.run_sub(
        "long-request-lists",
        "arrays of length 33, 40, 64, 65, 100, 130 x request lists (every position; every second, decreasing; a permutation; the first third) alone and with one out-of-range entry (n, n+1, MAX) at the front, in the middle and at the end; pivot policies first / last / middle (one execution each)",
        lcases,
        |c, lx| {
            let n = c.pat.len();
            let vals: Vec<i32> = c.pat.iter().map(|&r| r as i32).collect();
            let req = match &c.op {
                Op::Many(v) => v.clone(),
                _ => unreachable!(),
            };
            let in_range = req.iter().all(|&i| i < n);
            lx.nontrivial(true);
            lx.count(if in_range { "in_range_cases" } else { "out_of_range_cases" }, 1);
            for pol in Policy::ALL {
                lx.explore(&PivotMode::Bounded { policy: pol, bound: 0 }, |lx| {
                    let mut a = Array1::from(vals.clone());
                    let r = guarded(|| a.get_many_from_sorted_mut(&Array1::from(req.clone())).len());
                    match (&r, in_range) {
                        (Ok(k), false) => lx.fail("C16/out-of-range-accepted", || format!("get_many_from_sorted_mut with {} requests incl. an out-of-range one on an array of length {} returned a map of {} entries instead of panicking (policy {:?})", req.len(), n, k, pol)),
                        (Err(m), true) => lx.fail("C16/in-range-panic", || format!("get_many_from_sorted_mut with {} in-range requests on an array of length {} panicked: {}", req.len(), n, m)),
                        _ => {}
                    }
                    hash_of(&r.is_ok())
                });
            }
        },
    );

    // Bins::index
    let cases = (0..=5usize).flat_map(|len| sequences(len, 4)).flat_map(|e| {
        let m = e.len();
        (0..=m + 2).chain(vec![usize::MAX / 2, (1usize << 63) - 1, 1usize << 63, usize::MAX - 6, usize::MAX - 5, usize::MAX - 4, usize::MAX - 3, usize::MAX - 2, usize::MAX - 1, usize::MAX]).map(move |i| BinsCase { edges: e.clone(), i }).collect::<Vec<_>>()
    });
    rep.run_sub("bins-index", "every edge collection of length 0..=5 over 4 values (unsorted, duplicates; through the Vec constructor, a fresh Array1 or an owned Array1 narrowed in place, rotating) x index 0..=len+2, MAX/2, 2^63-1, 2^63, MAX-6..=MAX", cases, |c, lx| {
        let vals: Vec<i32> = c.edges.iter().map(|&d| d as i32 * 2).collect();
        let mut d = vals.clone();
        d.sort();
        d.dedup();
        let nb = d.len().saturating_sub(1);
        let in_range = c.i < nb;
        lx.nontrivial(true);
        lx.count(if in_range { "in_range_cases" } else { "out_of_range_cases" }, 1);
        // the edges reach `Edges` through the Vec constructor, a fresh Array1, or an owned Array1 narrowed in
        // place (whose allocation still holds two more values, 100 and 102, which would be extra bins)
        let via = (c.i % 3 + c.edges.len()) % 3;
        lx.single(|lx| {
            let edges = match via {
                0 => Edges::from(vals.clone()),
                1 => Edges::from(Array1::from(vals.clone())),
                _ => {
                    let mut padded = vals.clone();
                    padded.push(100);
                    padded.push(102);
                    let n = vals.len();
                    Edges::from(Array1::from(padded).slice_move(ndarray::s![..n]))
                }
            };
            let bins = Bins::new(edges);
            let r = guarded(|| bins.index(c.i));
            match (&r, in_range) {
                (Ok(v), false) => lx.fail("C16/bins-out-of-range-accepted", || format!("Bins over edges {:?} ({} bins): index({}) returned {:?}", d, nb, c.i, v)),
                (Err(m), true) => lx.fail("C16/bins-in-range-panic", || format!("Bins over edges {:?}: index({}) panicked: {}", d, c.i, m)),
                _ => {}
            }
            hash_of(&r.is_ok())
        });
    });

    // Grid::index
    let mut gcases: Vec<GridCase> = Vec::new();
    for d in 0..=3usize {
        for ax in sequences(d, EDGE_SETS.len()) {
            let axes: Vec<usize> = ax.iter().map(|&x| x as usize).collect();
            let shape: Vec<usize> = axes.iter().map(|&a| EDGE_SETS[a].len().saturating_sub(1)).collect();
            // every index tuple in 0..=len+1 per axis, plus MAX in each position, plus wrong arity
            let tot: usize = shape.iter().map(|s| s + 2).product();
            for mut x in 0..tot {
                let mut idx = vec![0; d];
                for k in (0..d).rev() {
                    idx[k] = x % (shape[k] + 2);
                    x /= shape[k] + 2;
                }
                gcases.push(GridCase { axes: axes.clone(), index: idx });
            }
            for k in 0..d {
                for big in [usize::MAX, usize::MAX - 1, usize::MAX - 2, usize::MAX - 3, 1usize << 63] {
                    let mut idx = vec![0; d];
                    idx[k] = big;
                    gcases.push(GridCase { axes: axes.clone(), index: idx });
                }
            }
            if d > 0 {
                gcases.push(GridCase { axes: axes.clone(), index: vec![0; d - 1] });
            }
            gcases.push(GridCase { axes: axes.clone(), index: vec![0; d + 1] });
        }
    }
    rep.run_sub("grid-index", "all grids of 0..=3 axes over edge sets {[], [0], [0,4], [0,4,8]} x every index tuple with components 0..=len+1, MAX in each position, arity d-1 and d+1", gcases.into_iter(), |c, lx| {
        let shape: Vec<usize> = c.axes.iter().map(|&a| EDGE_SETS[a].len().saturating_sub(1)).collect();
        let in_range = c.index.len() == shape.len() && c.index.iter().zip(&shape).all(|(i, s)| i < s);
        lx.nontrivial(true);
        lx.count(if in_range { "in_range_cases" } else { "out_of_range_cases" }, 1);
        lx.single(|lx| {
            let grid = Grid::from(
                c.axes
                    .iter()
                    .enumerate()
                    .map(|(k, &a)| {
                        let list = EDGE_SETS[a].to_vec();
                        // every other axis: an owned Array1 narrowed in place (its allocation holds two more values)
                        if (k + c.index.len()) % 2 == 0 {
                            Bins::new(Edges::from(list))
                        } else {
                            let n = list.len();
                            let mut padded = list;
                            padded.push(100);
                            padded.push(102);
                            Bins::new(Edges::from(Array1::from(padded).slice_move(ndarray::s![..n])))
                        }
                    })
                    .collect::<Vec<_>>(),
            );
            let r = guarded(|| grid.index(&c.index));
            match (&r, in_range) {
                (Ok(v), false) => lx.fail("C16/grid-out-of-range-accepted", || format!("Grid of shape {:?}: index({:?}) returned {:?}", shape, c.index, v)),
                (Err(m), true) => lx.fail("C16/grid-in-range-panic", || format!("Grid of shape {:?}: index({:?}) panicked: {}", shape, c.index, m)),
                _ => {}
            }
            hash_of(&r.is_ok())
        });
    });
    rep.finish();
}
