//! C17 — every fallible routine reports exactly the documented error.
use ndarray::prelude::*;
use ndarray_stats::errors::{MinMaxError, MultiInputError, QuantileError};
use ndarray_stats::histogram::strategies::{Auto, BinsBuildingStrategy, FreedmanDiaconis, Rice, Sqrt, Sturges};
use ndarray_stats::interpolate::{Linear, Lower};
use ndarray_stats::{CorrelationExt, DeviationExt, EntropyExt, Quantile1dExt, QuantileExt, SummaryStatisticsExt};
use noisy_float::types::{n64, N64};
use nsmc::layouts::{Host, Layout};
use nsmc::*;

#[derive(Debug, Clone, PartialEq)]
enum Out {
    Ok(String),
    Empty,
    Shape(Vec<usize>, Vec<usize>),
    InvalidQ(f64),
    UndefinedOrder,
    Strategy,
    Panic(String),
}

fn multi<T: std::fmt::Debug>(r: Result<T, MultiInputError>) -> Out {
    match r {
        Ok(v) => Out::Ok(format!("{:?}", v)),
        Err(MultiInputError::EmptyInput) => Out::Empty,
        Err(MultiInputError::ShapeMismatch(s)) => Out::Shape(s.first_shape, s.second_shape),
    }
}
fn empty<T: std::fmt::Debug>(r: Result<T, ndarray_stats::errors::EmptyInput>) -> Out {
    match r {
        Ok(v) => Out::Ok(format!("{:?}", v)),
        Err(_) => Out::Empty,
    }
}
fn minmax<T: std::fmt::Debug>(r: Result<T, MinMaxError>) -> Out {
    match r {
        Ok(v) => Out::Ok(format!("{:?}", v)),
        Err(MinMaxError::EmptyInput) => Out::Empty,
        Err(MinMaxError::UndefinedOrder) => Out::UndefinedOrder,
    }
}
fn quant<T: std::fmt::Debug>(r: Result<T, QuantileError>) -> Out {
    match r {
        Ok(v) => Out::Ok(format!("{:?}", v)),
        Err(QuantileError::EmptyInput) => Out::Empty,
        Err(QuantileError::InvalidQuantile(q)) => Out::InvalidQ(q.raw()),
    }
}
fn run<F: FnOnce() -> Out>(f: F) -> Out {
    match guarded(f) {
        Ok(o) => o,
        Err(m) => Out::Panic(m),
    }
}

const SINGLE: [&str; 17] = ["mean", "harmonic_mean", "geometric_mean", "kurtosis", "skewness", "central_moment", "central_moments", "entropy", "argmin", "argmax", "min", "max", "argmin_skipnan", "argmax_skipnan", "int:mean", "int:argmin", "int:max"];
const PAIR: [&str; 18] = [
    "weighted_mean", "weighted_var", "weighted_std", "count_eq", "count_neq", "sq_l2_dist", "l2_dist", "l1_dist", "linf_dist", "mean_abs_err", "mean_sq_err", "root_mean_sq_err", "peak_signal_to_noise_ratio", "cross_entropy", "kl_divergence", "int:weighted_mean", "int:count_eq", "int:l1_dist",
];
const SUMPAIR: [&str; 2] = ["weighted_sum", "int:weighted_sum"];
const AXISW: [&str; 4] = ["weighted_mean_axis", "weighted_var_axis", "weighted_std_axis", "int:weighted_mean_axis"];
const SUMAXIS: [&str; 2] = ["weighted_sum_axis", "int:weighted_sum_axis"];
const QUANT: [&str; 5] = ["quantile_axis_mut", "quantiles_axis_mut", "quantile_axis_skipnan_mut", "quantile_mut", "quantiles_mut"];

#[derive(Debug, Clone)]
struct Case {
    routine: &'static str,
    class: u8,
    shape: Vec<usize>,
    second: Vec<usize>,
    axis: usize,
    qs: Vec<f64>,
    layout: u8,
    /// both operands are windows of ONE buffer starting at the same address with the same strides
    alias: bool,
}

fn layout_of(d: usize, k: u8) -> Layout {
    match k {
        0 => Layout::c_order(d),
        1 => Layout::f_order(d),
        _ => Layout { perm: (0..d).collect(), steps: (0..d).map(|a| if a % 2 == 0 { 2 } else { -1 }).collect(), pad: 1 },
    }
}

fn fdata(n: usize) -> Vec<f64> {
    (0..n).map(|i| 0.5 + (i as f64) * 0.25).collect()
}
fn idata(n: usize) -> Vec<i32> {
    (0..n).map(|i| i as i32 * 2 + 1).collect()
}

fn expect_pair(shape: &[usize], second: &[usize]) -> Vec<Out> {
    let n: usize = shape.iter().product();
    if n == 0 {
        vec![Out::Empty]
    } else if shape != second {
        vec![Out::Shape(shape.to_vec(), second.to_vec())]
    } else {
        vec![]
    }
}

fn body(c: &Case, lx: &mut Local) {
    let n: usize = c.shape.iter().product();
    let n2: usize = c.second.iter().product();
    let d = c.shape.len();
    let lay = layout_of(d, c.layout);
    let lay2 = layout_of(c.second.len(), (c.layout + 1) % 3);
    let is_int = c.routine.starts_with("int:");
    let name = c.routine.trim_start_matches("int:");
    lx.single(|lx| {
        let hf = Host::new(&c.shape, &fdata(n), &lay, 9.0);
        let hi = Host::new(&c.shape, &idata(n), &lay, 9);
        let hf2 = Host::new(&c.second, &fdata(n2), &lay2, 9.0);
        let hi2 = Host::new(&c.second, &idata(n2), &lay2, 9);
        // aliasing operands: the top-left windows of one array that is large enough for both shapes
        let big: Vec<usize> = if c.alias { c.shape.iter().zip(&c.second).map(|(&x, &y)| x.max(y)).collect() } else { vec![] };
        let nbig: usize = big.iter().product();
        let (bigf, bigi) = if c.layout == 1 {
            (ArrayD::from_shape_vec(IxDyn(&big).f(), fdata(nbig)).unwrap(), ArrayD::from_shape_vec(IxDyn(&big).f(), idata(nbig)).unwrap())
        } else {
            (ArrayD::from_shape_vec(IxDyn(&big), fdata(nbig)).unwrap(), ArrayD::from_shape_vec(IxDyn(&big), idata(nbig)).unwrap())
        };
        let (a, ai, b, bi) = if c.alias {
            let win = |s: &Vec<usize>| { let s = s.clone(); move |ax: ndarray::AxisDescription| ndarray::Slice::from(0..s[ax.axis.index()]) };
            (bigf.slice_each_axis(win(&c.shape)), bigi.slice_each_axis(win(&c.shape)), bigf.slice_each_axis(win(&c.second)), bigi.slice_each_axis(win(&c.second)))
        } else {
            (hf.view(), hi.view(), hf2.view(), hi2.view())
        };
        let maxv = 4.0;
        // ---- call
        let got: Out = match c.class {
            0 => match (name, is_int) {
                ("mean", false) => run(|| empty(SummaryStatisticsExt::mean(&a))),
                ("mean", true) => run(|| empty(SummaryStatisticsExt::mean(&ai))),
                ("harmonic_mean", _) => run(|| empty(a.harmonic_mean())),
                ("geometric_mean", _) => run(|| empty(a.geometric_mean())),
                ("kurtosis", _) => run(|| empty(a.kurtosis())),
                ("skewness", _) => run(|| empty(a.skewness())),
                ("central_moment", _) => run(|| empty(a.central_moment(3))),
                ("central_moments", _) => run(|| empty(a.central_moments(3))),
                ("entropy", _) => run(|| empty(a.entropy())),
                ("argmin", false) => run(|| minmax(QuantileExt::argmin(&a))),
                ("argmin", true) => run(|| minmax(QuantileExt::argmin(&ai))),
                ("argmax", _) => run(|| minmax(QuantileExt::argmax(&a))),
                ("min", _) => run(|| minmax(QuantileExt::min(&a).map(|x| *x))),
                ("max", false) => run(|| minmax(QuantileExt::max(&a).map(|x| *x))),
                ("max", true) => run(|| minmax(QuantileExt::max(&ai).map(|x| *x))),
                ("argmin_skipnan", _) => run(|| empty(a.argmin_skipnan())),
                ("argmax_skipnan", _) => run(|| empty(a.argmax_skipnan())),
                _ => unreachable!(),
            },
            1 | 2 => match (name, is_int) {
                ("weighted_mean", false) => run(|| multi(a.weighted_mean(&b))),
                ("weighted_mean", true) => run(|| multi(ai.weighted_mean(&bi))),
                ("weighted_var", _) => run(|| multi(a.weighted_var(&b, 0.0))),
                ("weighted_std", _) => run(|| multi(a.weighted_std(&b, 1.0))),
                ("weighted_sum", false) => run(|| multi(a.weighted_sum(&b))),
                ("weighted_sum", true) => run(|| multi(ai.weighted_sum(&bi))),
                ("count_eq", false) => run(|| multi(a.count_eq(&b))),
                ("count_eq", true) => run(|| multi(ai.count_eq(&bi))),
                ("count_neq", _) => run(|| multi(a.count_neq(&b))),
                ("sq_l2_dist", _) => run(|| multi(a.sq_l2_dist(&b))),
                ("l2_dist", _) => run(|| multi(a.l2_dist(&b))),
                ("l1_dist", false) => run(|| multi(a.l1_dist(&b))),
                ("l1_dist", true) => run(|| multi(ai.l1_dist(&bi))),
                ("linf_dist", _) => run(|| multi(a.linf_dist(&b))),
                ("mean_abs_err", _) => run(|| multi(a.mean_abs_err(&b))),
                ("mean_sq_err", _) => run(|| multi(a.mean_sq_err(&b))),
                ("root_mean_sq_err", _) => run(|| multi(a.root_mean_sq_err(&b))),
                ("peak_signal_to_noise_ratio", _) => run(|| multi(a.peak_signal_to_noise_ratio(&b, maxv))),
                ("cross_entropy", _) => run(|| multi(a.cross_entropy(&b))),
                ("kl_divergence", _) => run(|| multi(a.kl_divergence(&b))),
                _ => unreachable!(),
            },
            3 | 4 => {
                // weights: 1-D of length second[0]
                let wlen = c.second[0];
                let wf = Host::new(&[wlen], &fdata(wlen), &layout_of(1, (c.layout + 2) % 3), 9.0);
                let wi = Host::new(&[wlen], &idata(wlen), &layout_of(1, (c.layout + 2) % 3), 9);
                let w = wf.view().into_dimensionality::<Ix1>().unwrap();
                let w_i = wi.view().into_dimensionality::<Ix1>().unwrap();
                let ax = Axis(c.axis);
                match (name, is_int) {
                    ("weighted_mean_axis", false) => run(|| multi(a.weighted_mean_axis(ax, &w))),
                    ("weighted_mean_axis", true) => run(|| multi(ai.weighted_mean_axis(ax, &w_i))),
                    ("weighted_var_axis", _) => run(|| multi(a.weighted_var_axis(ax, &w, 0.0))),
                    ("weighted_std_axis", _) => run(|| multi(a.weighted_std_axis(ax, &w, 1.0))),
                    ("weighted_sum_axis", false) => run(|| multi(a.weighted_sum_axis(ax, &w))),
                    ("weighted_sum_axis", true) => run(|| multi(ai.weighted_sum_axis(ax, &w_i))),
                    _ => unreachable!(),
                }
            }
            5 => {
                let ax = Axis(c.axis);
                let qs: Vec<N64> = c.qs.iter().map(|&q| n64(q)).collect();
                let qa = Array1::from(qs.clone());
                let mut hi = Host::new(&c.shape, &idata(n), &lay, 9);
                let mut hn = Host::new(&c.shape, &fdata(n).iter().map(|&x| n64(x)).collect::<Vec<N64>>(), &lay, n64(9.0));
                let mut hf = Host::new(&c.shape, &fdata(n), &lay, 9.0);
                match name {
                    "quantile_axis_mut" => run(|| quant(hi.view_mut().quantile_axis_mut(ax, qs[0], &Linear).map(|r| r.shape().to_vec()))),
                    "quantiles_axis_mut" => run(|| quant(hn.view_mut().quantiles_axis_mut(ax, &qa, &Lower).map(|r| r.shape().to_vec()))),
                    "quantile_axis_skipnan_mut" => run(|| quant(hf.view_mut().quantile_axis_skipnan_mut(ax, qs[0], &Lower).map(|r| r.shape().to_vec()))),
                    "quantile_mut" => run(|| quant(hi.view_mut().into_dimensionality::<Ix1>().unwrap().quantile_mut(qs[0], &Lower).map(|_| Vec::<usize>::new()))),
                    "quantiles_mut" => run(|| quant(hn.view_mut().into_dimensionality::<Ix1>().unwrap().quantiles_mut(&qa, &Linear).map(|r| r.shape().to_vec()))),
                    _ => unreachable!(),
                }
            }
            6 => {
                let m = a.clone().into_dimensionality::<Ix2>().unwrap();
                match name {
                    "cov" => {
                        // ddof must be strictly smaller than the number of observations (documented precondition, panics otherwise)
                        let ddof = if c.shape[1] == 0 { -1.0 } else { 0.0 };
                        run(|| empty(m.cov(ddof).map(|r| r.shape().to_vec())))
                    }
                    _ => run(|| empty(m.pearson_correlation().map(|r| r.shape().to_vec()))),
                }
            }
            _ => {
                let v = ai.clone().into_dimensionality::<Ix1>().unwrap();
                let conv = |r: Result<(), ndarray_stats::histogram::errors::BinsBuildError>| match r {
                    Ok(()) => Out::Ok(String::new()),
                    Err(e) if e.is_empty_input() => Out::Empty,
                    Err(e) if e.is_strategy() => Out::Strategy,
                    Err(e) => Out::Panic(format!("unexpected error {:?}", e)),
                };
                match name {
                    "Sqrt" => run(|| conv(Sqrt::from_array(&v).map(|_| ()))),
                    "Rice" => run(|| conv(Rice::from_array(&v).map(|_| ()))),
                    "Sturges" => run(|| conv(Sturges::from_array(&v).map(|_| ()))),
                    "FreedmanDiaconis" => run(|| conv(FreedmanDiaconis::from_array(&v).map(|_| ()))),
                    _ => run(|| conv(Auto::from_array(&v).map(|_| ()))),
                }
            }
        };
        // ---- decision function of the statement
        let (want, open): (Vec<Out>, bool) = match c.class {
            0 => (if n == 0 { vec![Out::Empty] } else { vec![] }, false),
            1 => (expect_pair(&c.shape, &c.second), false),
            2 => {
                // sum-type: accepts empty inputs and returns zero; an empty first input with a differently
                // shaped second one is not determined by the statement (ShapeMismatch today)
                if c.shape != c.second {
                    if n == 0 {
                        (vec![Out::Shape(c.shape.clone(), c.second.clone())], true)
                    } else {
                        (vec![Out::Shape(c.shape.clone(), c.second.clone())], false)
                    }
                } else {
                    (vec![], false)
                }
            }
            3 => {
                if n == 0 {
                    (vec![Out::Empty], false)
                } else if c.shape[c.axis] != c.second[0] {
                    (vec![Out::Shape(c.shape.clone(), c.second.clone())], false)
                } else {
                    (vec![], false)
                }
            }
            4 => {
                if c.shape[c.axis] != c.second[0] {
                    (vec![Out::Shape(c.shape.clone(), c.second.clone())], false)
                } else {
                    (vec![], false)
                }
            }
            5 => {
                let single = matches!(name, "quantile_axis_mut" | "quantile_axis_skipnan_mut" | "quantile_mut");
                let qs: &[f64] = if single { &c.qs[..1] } else { &c.qs[..] };
                if let Some(bad) = qs.iter().find(|q| !(**q >= 0.0 && **q <= 1.0)) {
                    (vec![Out::InvalidQ(*bad)], false)
                } else if c.shape[c.axis] == 0 {
                    (vec![Out::Empty], false)
                } else {
                    (vec![], false)
                }
            }
            6 => (if n == 0 { vec![Out::Empty] } else { vec![] }, false),
            _ => {
                if n == 0 {
                    (vec![Out::Empty], false)
                } else if n == 1 {
                    (vec![Out::Strategy], false)
                } else {
                    (vec![], false)
                }
            }
        };
        let ctx = || format!("{} on first input of shape {:?} (layout {}), second {:?}{}, axis {}, qs {:?}", c.routine, c.shape, c.layout, c.second, if c.alias { " (both are windows of one array, starting at the same element)" } else { "" }, c.axis, c.qs);
        match (&got, want.first()) {
            (Out::Panic(m), _) => lx.fail("C17/panic", || format!("{} panicked: {}", ctx(), m)),
            (Out::Ok(v), None) => {
                // sum-type on empty inputs: zero
                if c.class == 2 && n == 0 {
                    lx.check(v == "0" || v == "0.0", "C17/sum-of-empty-not-zero", || format!("{} returned Ok({})", ctx(), v));
                }
                if c.class == 5 {
                    // result shape: axis removed (single) or resized to the number of requests (bulk)
                    let mut ws = c.shape.clone();
                    match name {
                        "quantile_axis_mut" | "quantile_axis_skipnan_mut" => {
                            ws.remove(c.axis);
                        }
                        "quantiles_axis_mut" | "quantiles_mut" => ws[c.axis] = c.qs.len(),
                        _ => ws.clear(),
                    }
                    lx.check(*v == format!("{:?}", ws), "C17/ok-shape", || format!("{} returned Ok with shape {}, expected {:?}", ctx(), v, ws));
                }
            }
            (Out::Ok(v), Some(w)) => {
                if open {
                    lx.count("open_cell_sum_of_empty_with_mismatched_second", 1);
                } else if c.routine == "cov" && c.shape[0] == 0 && c.shape[1] >= 1 {
                    lx.fail("C17/K2-cov-zero-variables-accepted", || format!("cov on shape {:?} returned Ok({}) instead of EmptyInput", c.shape, v));
                } else {
                    lx.fail("C17/missing-error", || format!("{} returned Ok({}), expected {:?}", ctx(), v, w));
                }
            }
            (g, None) => lx.fail("C17/spurious-error", || format!("{} returned {:?}, expected Ok", ctx(), g)),
            (g, Some(w)) => {
                lx.check(g == w, "C17/wrong-error", || format!("{} returned {:?}, expected {:?}", ctx(), g, w));
            }
        }
        hash_of(&format!("{:?}", got))
    });
}

/// Weighted routines on NON-empty inputs whose weights are all zero or cancel: the statement allows
/// EmptyInput only for inputs without elements, so these must be Ok (whatever the numeric value).
fn zero_weight_body(c: &(Vec<usize>, u8, u8), lx: &mut Local) {
    let (shape, kind, routine) = c;
    let n: usize = shape.iter().product();
    lx.nontrivial(true);
    lx.single(|lx| {
        let lay = layout_of(shape.len(), *kind % 3);
        let hf = Host::new(shape, &fdata(n), &lay, 9.0);
        let w: Vec<f64> = (0..n).map(|i| if *kind < 3 { 0.0 } else if i % 2 == 0 { 1.0 } else { -1.0 }).collect();
        let w = if *kind >= 3 && n % 2 == 1 { let mut w = w; w[n - 1] = 0.0; w } else { w };
        let hw = Host::new(shape, &w, &lay, 9.0);
        let (a, b) = (hf.view(), hw.view());
        let ax = Axis(shape.len() - 1);
        let wl = shape[shape.len() - 1];
        let w1: Vec<f64> = (0..wl).map(|i| if *kind < 3 { 0.0 } else if i % 2 == 0 { 1.0 } else { -1.0 }).collect();
        let w1 = if *kind >= 3 && wl % 2 == 1 { let mut w = w1; w[wl - 1] = 0.0; w } else { w1 };
        let hw1 = Host::new(&[wl], &w1, &layout_of(1, 0), 9.0);
        let wv = hw1.view().into_dimensionality::<Ix1>().unwrap();
        let got = match routine {
            0 => run(|| multi(a.weighted_mean(&b))),
            1 => run(|| multi(a.weighted_var(&b, 0.0))),
            2 => run(|| multi(a.weighted_std(&b, 1.0))),
            3 => run(|| multi(a.weighted_sum(&b))),
            4 => run(|| multi(a.weighted_mean_axis(ax, &wv).map(|r| r.shape().to_vec()))),
            5 => run(|| multi(a.weighted_var_axis(ax, &wv, 0.0).map(|r| r.shape().to_vec()))),
            6 => run(|| multi(a.weighted_std_axis(ax, &wv, 0.0).map(|r| r.shape().to_vec()))),
            _ => run(|| multi(a.weighted_sum_axis(ax, &wv).map(|r| r.shape().to_vec()))),
        };
        let name = ["weighted_mean", "weighted_var", "weighted_std", "weighted_sum", "weighted_mean_axis", "weighted_var_axis", "weighted_std_axis", "weighted_sum_axis"][*routine as usize];
        match &got {
            Out::Ok(_) => {}
            Out::Panic(m) => lx.fail("C17/panic", || format!("{} on a non-empty input of shape {:?} with {} weights panicked: {}", name, shape, if *kind < 3 { "all-zero" } else { "cancelling" }, m)),
            other => lx.fail("C17/spurious-error", || format!("{} on a non-empty input of shape {:?} with {} weights returned {:?}, expected Ok", name, shape, if *kind < 3 { "all-zero" } else { "cancelling" }, other)),
        }
        hash_of(&format!("{:?}", got))
    });
}

fn main() {
    let mut rep = Report::new("C17");
    rep.rule = "case = one cell of the decision table: (routine, first-input shape, second-input shape / weights length, axis, q list, layout); non-trivial = every cell (each is a distinct configuration)".into();
    rep.assume("the decision function is transcribed from the property statement: InvalidQuantile (first offender) before anything else; EmptyInput iff the first input has no elements (quantiles: iff the chosen axis has length 0); ShapeMismatch with both shapes iff a non-empty first input meets a differently shaped second one (axis forms: weights length != axis length); sum-type routines return zero on empty inputs; the cell 'sum-type routine, empty first input, differently shaped second input' is not determined by the statement and is counted, not judged");
    rep.assume("cov requires ddof < number of observations (documented panic): ddof = -1 is used for arrays with zero observations so that the emptiness check is reached");
    let shapes: Vec<Vec<usize>> = vec![vec![0], vec![3], vec![1], vec![0, 3], vec![3, 0], vec![2, 3], vec![3, 2], vec![2, 0, 2], vec![2, 1, 2], vec![0, 0]];
    let mut cases: Vec<Case> = Vec::new();
    let seconds = |s: &Vec<usize>| -> Vec<Vec<usize>> {
        let mut v = vec![s.clone()];
        let mut r = s.clone();
        r.reverse();
        v.push(r);
        v.push(vec![s.iter().product::<usize>()]);
        let mut bigger = s.clone();
        bigger[0] += 1;
        v.push(bigger);
        let mut z = s.clone();
        let last = z.len() - 1;
        z[last] = 0;
        v.push(z);
        v.push(vec![0]);
        v.push(vec![s.iter().product::<usize>(), 1]);
        // different rank with a common leading prefix (dynamic dimensionality makes this expressible)
        for k in 0..s.len() {
            v.push(s[..k].to_vec());
        }
        let mut longer = s.clone();
        longer.push(1);
        v.push(longer);
        let mut longer = s.clone();
        longer.push(2);
        v.push(longer);
        v.sort();
        v.dedup();
        v
    };
    for shape in &shapes {
        for layout in 0..3u8 {
            for r in SINGLE {
                cases.push(Case { routine: r, class: 0, shape: shape.clone(), second: vec![], axis: 0, qs: vec![], layout, alias: false });
            }
            for sec in seconds(shape) {
                for r in PAIR {
                    cases.push(Case { routine: r, class: 1, shape: shape.clone(), second: sec.clone(), axis: 0, qs: vec![], layout, alias: false });
                }
                for r in SUMPAIR {
                    cases.push(Case { routine: r, class: 2, shape: shape.clone(), second: sec.clone(), axis: 0, qs: vec![], layout, alias: false });
                }
            }
            for axis in 0..shape.len() {
                let mut wl: Vec<usize> = vec![shape[axis], shape[axis] + 1, 0, 2, 3];
                wl.sort();
                wl.dedup();
                for w in wl {
                    for r in AXISW {
                        cases.push(Case { routine: r, class: 3, shape: shape.clone(), second: vec![w], axis, qs: vec![], layout, alias: false });
                    }
                    for r in SUMAXIS {
                        cases.push(Case { routine: r, class: 4, shape: shape.clone(), second: vec![w], axis, qs: vec![], layout, alias: false });
                    }
                }
                let qlists: Vec<Vec<f64>> = vec![vec![0.5], vec![0.0, 1.0, 0.3], vec![-0.1], vec![1.5], vec![0.2, 1.0000000000000002, -3.0], vec![-0.5, 7.0], vec![0.5, -1e-300], vec![-0.0], vec![1.0, -0.0, 0.0], vec![]];
                for qs in qlists {
                    for r in QUANT {
                        let one_d = matches!(r, "quantile_mut" | "quantiles_mut");
                        if one_d && shape.len() != 1 {
                            continue;
                        }
                        let single = matches!(r, "quantile_axis_mut" | "quantile_axis_skipnan_mut" | "quantile_mut");
                        if single && qs.is_empty() {
                            continue;
                        }
                        cases.push(Case { routine: r, class: 5, shape: shape.clone(), second: vec![], axis, qs: qs.clone(), layout, alias: false });
                    }
                }
            }
            if shape.len() == 2 {
                for r in ["cov", "pearson_correlation"] {
                    cases.push(Case { routine: r, class: 6, shape: shape.clone(), second: vec![], axis: 0, qs: vec![], layout, alias: false });
                }
            }
            if shape.len() == 1 {
                for r in ["Sqrt", "Rice", "Sturges", "FreedmanDiaconis", "Auto"] {
                    cases.push(Case { routine: r, class: 7, shape: shape.clone(), second: vec![], axis: 0, qs: vec![], layout, alias: false });
                }
            }
        }
    }
    let mut alias_cases: Vec<Case> = Vec::new();
    for shape in &shapes {
        for sec in seconds(shape) {
            if sec.len() != shape.len() {
                continue;
            }
            for layout in 0..2u8 {
                for r in PAIR {
                    alias_cases.push(Case { routine: r, class: 1, shape: shape.clone(), second: sec.clone(), axis: 0, qs: vec![], layout, alias: true });
                }
                for r in SUMPAIR {
                    alias_cases.push(Case { routine: r, class: 2, shape: shape.clone(), second: sec.clone(), axis: 0, qs: vec![], layout, alias: true });
                }
            }
        }
    }
    rep.run_sub(
        "decision-table",
        &format!("first-input shapes {:?} x layouts {{C, F, stepped+reversed}} x {{17 single-input routines; 18 two-input routines and 2 sum-type routines x second shapes (same, reversed, flattened, one more along axis 0, zero along the last axis, (0,), (count,1), every proper prefix of the shape incl. (), the shape extended by an axis of length 1 or 2); 4 axis-weight routines and 2 sum-type axis routines x every axis x weights lengths (axis length, +1, 0, 2, 3); 5 quantile routines x every axis x 10 q lists (valid, q<0, q>1, several invalid, barely outside, negative zero, empty); cov, pearson_correlation; 5 bin strategies}}; f64 and i32 / N64 instantiations", shapes),
        cases.into_iter(),
        |c, lx| {
            lx.nontrivial(true);
            body(c, lx)
        },
    );
    let zcases = [vec![3usize], vec![2], vec![2, 3], vec![3, 2], vec![2, 1, 2]].iter().flat_map(|sh| (0..6u8).flat_map(move |kind| (0..8u8).map(move |r| (sh.clone(), kind, r)))).collect::<Vec<_>>();
    rep.run_sub(
        "operands-sharing-a-buffer",
        "the 18 two-input and 2 sum-type routines with both operands windows of ONE array (standard and column-major) that start at the same address and have the same strides: the second shape is the first one, one more along axis 0, zero along the last axis, reversed - an array against itself is Ok, against a longer or shorter window of itself ShapeMismatch (or EmptyInput when the first has no elements)",
        alias_cases.into_iter(),
        |c, lx| {
            lx.nontrivial(c.shape != c.second);
            body(c, lx)
        },
    );
    rep.run_sub(
        "zero-total-weight",
        "8 weighted routines x non-empty shapes (3,), (2,), (2,3), (3,2), (2,1,2) x layouts x weights that are all zero or cancel exactly (+1, -1, ...): none of the documented error conditions holds, so the result must be Ok (the numeric value is not judged)",
        zcases.into_iter(),
        zero_weight_body,
    );
    rep.finish();
}
