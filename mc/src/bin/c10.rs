//! C10 — entropy, cross-entropy and KL divergence follow their definitions.
use ndarray_stats::EntropyExt;
use nsmc::exact::Rat;
use nsmc::fl::Fl;
use nsmc::layouts::{all_layouts, Host, Host1, Layout};
use nsmc::patterns::sequences;
use nsmc::*;

/// the last two: a negative zero (still a zero entry) and a subnormal (1e-310; 1e-40 for f32): quotients and
/// logarithms next to the bottom of the exponent range
const ALPHA: [f64; 9] = [0.0, 0.1, 0.25, 0.5, 1.0, 2.0, f64::NAN, -0.0, 1e-310];
const NALPHA: usize = 9;

#[derive(Debug, Clone, Copy, PartialEq)]
enum Kind {
    Entropy,
    Cross,
    Kl,
}

/// Expected value and tolerance, from per-term f64 values summed exactly.
#[derive(Debug)]
enum Expect {
    Nan,
    Inf(f64),
    Finite { value: f64, tol: f64 },
}

fn expect<T: Fl>(kind: Kind, p: &[T], q: &[T]) -> Expect {
    let u = T::U;
    let n = p.len() as f64;
    let mut terms: Vec<f64> = Vec::new();
    let mut slack = 0.0;
    for i in 0..p.len() {
        let pi = p[i].to_f64_();
        let qi = if kind == Kind::Entropy { pi } else { q[i].to_f64_() };
        let t = if pi == 0.0 {
            0.0
        } else {
            match kind {
                Kind::Entropy => pi * pi.ln(),
                Kind::Cross => pi * qi.ln(),
                // the quotient is formed in the element type (it can overflow or go subnormal there), as in
                // the documented formula; the logarithm and the product are then taken of that value
                Kind::Kl => pi * (q[i] / p[i]).to_f64_().ln(),
            }
        };
        if t.is_finite() && pi != 0.0 {
            slack += 4.0 * u * pi.abs() * (pi.ln().abs() + if qi > 0.0 { qi.ln().abs() } else { 0.0 } + 1.0);
        }
        terms.push(t);
    }
    if terms.iter().any(|t| t.is_nan()) {
        return Expect::Nan;
    }
    let pos = terms.iter().any(|t| *t == f64::INFINITY);
    let neg = terms.iter().any(|t| *t == f64::NEG_INFINITY);
    if pos && neg {
        return Expect::Nan;
    }
    if pos {
        return Expect::Inf(f64::NEG_INFINITY);
    }
    if neg {
        return Expect::Inf(f64::INFINITY);
    }
    let mut s = Rat::zero();
    let mut a = 0.0;
    for t in &terms {
        s = &s + &Rat::from_f64(*t);
        a += t.abs();
    }
    Expect::Finite { value: -s.to_f64(), tol: 4.0 * (n + 4.0) * u * a + slack + f64::MIN_POSITIVE }
}

fn check<T: Fl>(kind: Kind, got: T, ex: &Expect, ctx: &dyn Fn() -> String, lx: &mut Local) {
    let g = got.to_f64_();
    let key = match kind {
        Kind::Entropy => "C10/entropy",
        Kind::Cross => "C10/cross-entropy",
        Kind::Kl => "C10/kl-divergence",
    };
    match ex {
        Expect::Nan => {
            lx.check(g.is_nan(), "C10/nan-not-propagated", || format!("[{}] {:?} = {:e}, expected NaN (a contributing term is NaN); {}", T::NAME, kind, g, ctx()));
        }
        Expect::Inf(s) => {
            // f32 may overflow earlier, but the alphabet cannot overflow: exact sign expected
            lx.check(g == *s, key, || format!("[{}] {:?} = {:e}, expected {:e}; {}", T::NAME, kind, g, s, ctx()));
        }
        Expect::Finite { value, tol } => {
            lx.ratio(&format!("{:?}", kind), (g - value).abs() / tol);
            lx.within((g - value).abs(), *tol, key, || format!("[{}] {:?} = {:e}, exact sum of terms {:e}, tolerance {:e}; {}", T::NAME, kind, g, value, tol, ctx()));
        }
    }
}

#[derive(Debug, Clone)]
struct Case {
    p: Vec<u8>,
    /// q candidates are derived from the case (all for short lengths)
    ty: u8,
    normalised: bool,
}

fn q_candidates(c: &Case) -> Vec<Vec<u8>> {
    let n = c.p.len();
    if c.normalised {
        return compositions(8, n);
    }
    let all: Vec<Vec<u8>> = sequences(n, NALPHA).collect();
    if n <= 3 {
        all
    } else {
        let salt = c.p.iter().fold(0usize, |s, &d| s * 7 + d as usize);
        let k = if n == 4 { 24 } else { 12 };
        let mut v: Vec<Vec<u8>> = (0..k).map(|i| all[(salt * 104729 + i * (all.len() / k) + i) % all.len()].clone()).collect();
        v.push(c.p.clone());
        v
    }
}

/// all vectors of n non-negative integers summing to total (entries are eighths)
fn compositions(total: u8, n: usize) -> Vec<Vec<u8>> {
    fn rec(rem: u8, n: usize, cur: &mut Vec<u8>, out: &mut Vec<Vec<u8>>) {
        if n == 1 {
            cur.push(rem);
            out.push(cur.clone());
            cur.pop();
            return;
        }
        for k in 0..=rem {
            cur.push(k);
            rec(rem - k, n - 1, cur, out);
            cur.pop();
        }
    }
    let mut out = Vec::new();
    rec(total, n, &mut Vec::new(), &mut out);
    out
}

fn val<T: Fl>(d: u8, normalised: bool) -> T {
    if normalised {
        T::of(d as f64 / 8.0)
    } else if d == 8 && T::NAME == "f32" {
        T::of(1e-40)
    } else {
        T::of(ALPHA[d as usize])
    }
}

const STRIDES: [(isize, isize); 5] = [(1, 1), (1, -1), (2, 1), (-1, 3), (-2, -1)];

fn run<T: Fl>(c: &Case, lx: &mut Local) {
    let n = c.p.len();
    let p: Vec<T> = c.p.iter().map(|&d| val::<T>(d, c.normalised)).collect();
    let salt = c.p.iter().fold(0usize, |s, &d| s * 9 + d as usize);
    let u = T::U;
    // entropy
    let ex_h = expect::<T>(Kind::Entropy, &p, &p);
    for st in [1isize, 2, -1] {
        lx.single(|lx| {
            let h = Host1::new(&p, st, 1, T::of(0.33));
            match guarded(|| h.view().entropy()) {
                Ok(Ok(g)) => {
                    check(Kind::Entropy, g, &ex_h, &|| format!("p = {:?} (stride {})", p, st), lx);
                    if c.normalised {
                        if let Expect::Finite { tol, .. } = &ex_h {
                            lx.check(g.to_f64_() <= (n as f64).ln() + tol, "C10/entropy-above-ln-n", || format!("[{}] entropy of the normalised vector {:?} = {:e} > ln {}", T::NAME, p, g.to_f64_(), n));
                        }
                    }
                    g.bits_()
                }
                other => {
                    lx.fail("C10/failed", || format!("[{}] entropy of {:?}: {:?}", T::NAME, p, other.map(|r| r.map(|x| x.to_f64_()))));
                    0
                }
            }
        });
    }
    for (qi, qd) in q_candidates(c).into_iter().enumerate() {
        let q: Vec<T> = qd.iter().map(|&d| val::<T>(d, c.normalised)).collect();
        let ex_c = expect::<T>(Kind::Cross, &p, &q);
        let ex_k = expect::<T>(Kind::Kl, &p, &q);
        let (sp, sq) = STRIDES[(salt + qi) % STRIDES.len()];
        lx.single(|lx| {
            let hp = Host1::new(&p, sp, 1, T::of(0.33));
            let hq = Host1::new(&q, sq, 2, T::of(0.77));
            let ctx = || format!("p = {:?} (stride {}), q = {:?} (stride {})", p, sp, q, sq);
            let rc = guarded(|| hp.view().cross_entropy(&hq.view()));
            let rk = guarded(|| hp.view().kl_divergence(&hq.view()));
            match (rc, rk) {
                (Ok(Ok(gc)), Ok(Ok(gk))) => {
                    check(Kind::Cross, gc, &ex_c, &ctx, lx);
                    check(Kind::Kl, gk, &ex_k, &ctx, lx);
                    // identities
                    if let (Expect::Finite { value: _, tol: tc }, Expect::Finite { value: _, tol: tk }, Expect::Finite { value: hv, tol: th }) = (&ex_c, &ex_k, &ex_h) {
                        let lhs = gc.to_f64_();
                        let rhs = hv + gk.to_f64_();
                        // H(p,q) = H(p) + KL(p,q): p ln q = p ln p + p ln(q/p) term by term, each identity holds within the per-term slack
                        lx.within((lhs - rhs).abs(), tc + tk + 2.0 * th, "C10/cross-entropy-identity", || format!("[{}] H(p,q) = {:e} but H(p) + KL(p,q) = {:e} + {:e}; {}", T::NAME, lhs, hv, gk.to_f64_(), ctx()));
                        if c.normalised {
                            lx.check(gk.to_f64_() >= -(tk + 8.0 * u), "C10/kl-negative", || format!("[{}] KL(p,q) = {:e} < 0 for normalised p, q; {}", T::NAME, gk.to_f64_(), ctx()));
                        }
                    }
                    if qd == c.p && !p.iter().any(|x| x.is_nan()) {
                        lx.check(gk.to_f64_() == 0.0, "C10/kl-self-not-zero", || format!("[{}] KL(p,p) = {:e}; p = {:?}", T::NAME, gk.to_f64_(), p));
                    }
                    hash_of(&(gc.bits_(), gk.bits_()))
                }
                (a, b) => {
                    lx.fail("C10/failed", || format!("[{}] cross_entropy / kl_divergence: {:?} / {:?}; {}", T::NAME, a.map(|r| r.map(|x| x.to_f64_())), b.map(|r| r.map(|x| x.to_f64_())), ctx()));
                    0
                }
            }
        });
    }
}

#[derive(Debug, Clone)]
struct NCase {
    shape: Vec<usize>,
    lp: Layout,
    lq: Layout,
    fill: usize,
    ty: u8,
}

fn run_nd<T: Fl>(c: &NCase, lx: &mut Local) {
    let n: usize = c.shape.iter().product();
    // fills with zeros in p and/or q at different logical positions, one NaN fill
    let p: Vec<T> = (0..n).map(|i| T::of([0.5, 0.0, 0.25, 0.1, 1.0, 2.0][(i * 5 + c.fill) % 6])).collect();
    let q: Vec<T> = (0..n).map(|i| T::of(if c.fill == 5 && i == 1 { f64::NAN } else { [0.25, 0.1, 0.0, 0.5, 2.0, 1.0, 0.1][(i * 3 + 2 * c.fill) % 7] })).collect();
    lx.single(|lx| {
        let hp = Host::new(&c.shape, &p, &c.lp, T::of(0.33));
        let hq = Host::new(&c.shape, &q, &c.lq, T::of(0.77));
        let ctx = || format!("p = {:?}, q = {:?} (logical C order); {:?}", p, q, c);
        let mut obs = Vec::new();
        match guarded(|| hp.view().entropy()) {
            Ok(Ok(g)) => {
                check(Kind::Entropy, g, &expect::<T>(Kind::Entropy, &p, &p), &ctx, lx);
                obs.push(g.bits_());
            }
            other => lx.fail("C10/failed", || format!("entropy: {:?}; {}", other.map(|r| r.map(|x| x.to_f64_())), ctx())),
        }
        match (guarded(|| hp.view().cross_entropy(&hq.view())), guarded(|| hp.view().kl_divergence(&hq.view()))) {
            (Ok(Ok(gc)), Ok(Ok(gk))) => {
                check(Kind::Cross, gc, &expect::<T>(Kind::Cross, &p, &q), &ctx, lx);
                check(Kind::Kl, gk, &expect::<T>(Kind::Kl, &p, &q), &ctx, lx);
                obs.push(gc.bits_());
                obs.push(gk.bits_());
            }
            (a, b) => lx.fail("C10/failed", || format!("cross_entropy / kl_divergence: {:?} / {:?}; {}", a.map(|r| r.map(|x| x.to_f64_())), b.map(|r| r.map(|x| x.to_f64_())), ctx())),
        }
        hash_of(&obs)
    });
}

#[derive(Debug, Clone)]
struct XCase {
    n: usize,
    kind: u8,
    ty: u8,
}

/// long vectors (size thresholds), tiny positive entries, zeros of q that are not last, and
/// operands that are views into one buffer
fn run_extra<T: Fl>(c: &XCase, lx: &mut Local) {
    let n = c.n;
    let tiny = if T::NAME == "f32" { 1e-10 } else { 1e-20 };
    let tiny2 = if T::NAME == "f32" { 1e-30 } else { 1e-300 };
    match c.kind {
        0 | 1 | 2 | 4 => {
            let p: Vec<T> = (0..n)
                .map(|i| {
                    T::of(match c.kind {
                        0 => ((i * 7 + 3) % 11) as f64 / 16.0,             // ordinary, with zeros
                        1 => if i % 3 == 0 { tiny } else if i % 3 == 1 { tiny2 } else { 0.25 }, // tiny positive entries
                        _ => 1.0 / 8.0 + (i % 5) as f64 / 32.0,
                    })
                })
                .collect();
            let q: Vec<T> = (0..n)
                .map(|i| {
                    T::of(match c.kind {
                        0 => ((i * 5 + 1) % 13) as f64 / 16.0 + 0.03125,
                        1 => if i % 4 == 1 { tiny } else { 0.5 },
                        // q within 0.03 % of p (never equal)
                        4 => (1.0 / 8.0 + (i % 5) as f64 / 32.0) * (1.0 + 3e-4 * if i % 2 == 0 { 1.0 } else { -0.7 }),
                        // a zero of q opposite a positive p at the FIRST position (and nowhere else)
                        _ => if i == 0 { 0.0 } else { 0.25 + (i % 3) as f64 / 8.0 },
                    })
                })
                .collect();
            lx.single(|lx| {
                let st = [1isize, -1, 2][(n + c.kind as usize) % 3];
                let hp = Host1::new(&p, st, 1, T::of(0.33));
                let hq = Host1::new(&q, -st, 1, T::of(0.77));
                let ctx = || format!("vectors of {} elements (kind {}); p starts {:?}, q starts {:?}", n, c.kind, &p[..n.min(4)], &q[..n.min(4)]);
                let mut obs = Vec::new();
                if let Ok(Ok(g)) = guarded(|| hp.view().entropy()) {
                    check(Kind::Entropy, g, &expect::<T>(Kind::Entropy, &p, &p), &ctx, lx);
                    obs.push(g.bits_());
                } else {
                    lx.fail("C10/failed", || format!("entropy failed; {}", ctx()));
                }
                match (guarded(|| hp.view().cross_entropy(&hq.view())), guarded(|| hp.view().kl_divergence(&hq.view()))) {
                    (Ok(Ok(gc)), Ok(Ok(gk))) => {
                        check(Kind::Cross, gc, &expect::<T>(Kind::Cross, &p, &q), &ctx, lx);
                        check(Kind::Kl, gk, &expect::<T>(Kind::Kl, &p, &q), &ctx, lx);
                        obs.push(gc.bits_());
                    }
                    _ => lx.fail("C10/failed", || format!("cross_entropy / kl_divergence failed; {}", ctx())),
                }
                hash_of(&obs)
            });
        }
        _ => {
            // aliasing: p = buf[..m], q = buf[..2m-1;2] (same first element, same shape, different stride);
            // a square matrix against its transpose; p against itself
            let m = n.max(2);
            let buf: Vec<T> = (0..2 * m).map(|i| T::of(((i * 3 + 1) % 7) as f64 / 8.0 + if i % 5 == 0 { 0.0 } else { 0.0625 })).collect();
            let arr = ndarray::Array1::from(buf.clone());
            lx.single(|lx| {
                let pv = arr.slice(ndarray::s![..m]);
                let qv = arr.slice(ndarray::s![..2 * m - 1;2]);
                let (p, q): (Vec<T>, Vec<T>) = (pv.to_vec(), qv.to_vec());
                let ctx = || format!("p = buf[..{}], q = buf[..{};2] of one buffer {:?}", m, 2 * m - 1, buf);
                match (guarded(|| pv.cross_entropy(&qv)), guarded(|| pv.kl_divergence(&qv))) {
                    (Ok(Ok(gc)), Ok(Ok(gk))) => {
                        check(Kind::Cross, gc, &expect::<T>(Kind::Cross, &p, &q), &ctx, lx);
                        check(Kind::Kl, gk, &expect::<T>(Kind::Kl, &p, &q), &ctx, lx);
                    }
                    _ => lx.fail("C10/failed", || format!("aliasing operands failed; {}", ctx())),
                }
                let k = (2 * m) as f64;
                let side = (k.sqrt()) as usize;
                if side >= 2 {
                    let sq = ndarray::Array2::from_shape_vec((side, side), buf[..side * side].to_vec()).unwrap();
                    let (a, b) = (sq.view(), sq.t());
                    let (p, q): (Vec<T>, Vec<T>) = (a.iter().cloned().collect(), b.iter().cloned().collect());
                    let ctx = || format!("a {}x{} matrix against its own transpose: {:?}", side, side, p);
                    match (guarded(|| a.cross_entropy(&b)), guarded(|| a.kl_divergence(&b))) {
                        (Ok(Ok(gc)), Ok(Ok(gk))) => {
                            check(Kind::Cross, gc, &expect::<T>(Kind::Cross, &p, &q), &ctx, lx);
                            check(Kind::Kl, gk, &expect::<T>(Kind::Kl, &p, &q), &ctx, lx);
                        }
                        _ => lx.fail("C10/failed", || format!("transpose operands failed; {}", ctx())),
                    }
                }
                0
            });
        }
    }
}

fn main() {
    let mut rep = Report::new("C10");
    rep.rule = "case = (p over the alphabet {0,.1,.25,.5,1,2,NaN,-0.0,subnormal} or normalised vector in eighths, element type) with q candidates x stride pairs inside; n-D: (shape, layout of p, layout of q, fill); non-trivial = length >= 2".into();
    rep.assume("the reference evaluates each term (x ln x, p ln q, p ln(q/p); exactly 0 when x resp. p is 0) in f64 and sums the terms exactly; tolerance 4(n+4)u*sum|t_i| plus a per-term slack 4u|p_i|(|ln p_i|+|ln q_i|+1) so that algebraically equal rewrites (ln q - ln p) do not alarm");
    let nmax = rep.cfg.pick(5, 5);
    let mut cases: Vec<Case> = Vec::new();
    for n in 1..=nmax {
        for p in sequences(n, NALPHA) {
            for ty in 0..2u8 {
                if n >= 5 && (p.iter().map(|&d| d as usize).sum::<usize>() + ty as usize) % 2 == 1 {
                    continue;
                }
                cases.push(Case { p: p.clone(), ty, normalised: false });
            }
        }
    }
    for n in 1..=4 {
        for p in compositions(8, n) {
            for ty in 0..2u8 {
                cases.push(Case { p: p.clone(), ty, normalised: true });
            }
        }
    }
    rep.run_sub(
        "alphabet-and-normalised-1d",
        &format!("every p of length 1..={} over {{0,.1,.25,.5,1,2,NaN,-0.0,subnormal}} x f64/f32 (length 5: each p in one of the two types) with every q of the same length for n<=3 and 24 resp. 12 rotating q plus q=p above; every pair of normalised vectors with entries in eighths for n<=4; stride pairs rotating over {:?}; entropy on strides {{1,2,-1}}", nmax, STRIDES),
        cases.into_iter(),
        |c, lx| {
            lx.nontrivial(c.p.len() >= 2);
            if c.ty == 0 {
                run::<f64>(c, lx)
            } else {
                run::<f32>(c, lx)
            }
        },
    );
    let smax = rep.cfg.pick(1100, 4100);
    let xcases = nsmc::patterns::sizes(40, smax).into_iter().filter(|&n| n >= 1).flat_map(|n| (0..5u8).flat_map(move |kind| (0..2u8).map(move |ty| XCase { n, kind, ty }))).filter(|c| c.kind != 3 || c.n <= 64);
    rep.run_sub(
        "size-sweep-tiny-values-aliasing",
        &format!("every length 1..=40 and block threshold neighbourhoods up to {} x {{ordinary values with zeros; tiny positive entries 1e-20 / 1e-300 (f32: 1e-10 / 1e-30); a zero of q opposite a positive p at the first position only; q within 0.03 % of p; p and q as views into ONE buffer (same start, different stride; a matrix against its transpose)}} x f64/f32", smax),
        xcases,
        |c, lx| {
            lx.nontrivial(c.n >= 2);
            if c.ty == 0 {
                run_extra::<f64>(c, lx)
            } else {
                run_extra::<f32>(c, lx)
            }
        },
    );
    let mut cases: Vec<NCase> = Vec::new();
    let st = [1isize, 2, -1, -2];
    for shape in [vec![1usize, 1], vec![1, 3], vec![3, 1], vec![2, 2], vec![2, 3], vec![2, 2, 2]] {
        let d = shape.len();
        let ls = all_layouts(d, &st);
        for (i, lp) in ls.iter().enumerate() {
            for (j, lq) in ls.iter().enumerate() {
                if d == 3 && (i * 3 + j) % 17 != 0 {
                    continue;
                }
                cases.push(NCase { shape: shape.clone(), lp: lp.clone(), lq: lq.clone(), fill: (i + j) % 6, ty: ((i + j / 2) % 2) as u8 });
            }
        }
    }
    rep.run_sub(
        "layout-pairs-nd",
        "shapes (2,2), (2,3): ALL 1600 pairs of layouts for p and q; (2,2,2): every 17th of the 186624 pairs; 6 fills with zeros in p and/or q at different logical positions and one NaN fill; f64/f32 alternating",
        cases.into_iter(),
        |c, lx| {
            lx.nontrivial(true);
            if c.ty == 0 {
                run_nd::<f64>(c, lx)
            } else {
                run_nd::<f32>(c, lx)
            }
        },
    );
    rep.finish();
}
