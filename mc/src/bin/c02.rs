//! C02 — selection returns the true order statistic under every pivot sequence.
use ndarray::prelude::*;
use ndarray_stats::Sort1dExt;
use nsmc::layouts::Host1;
use nsmc::patterns::{sequences, weak_orders};
use nsmc::*;

const SPREAD: [i32; 12] = [-7, 0, 3, 10, 11, 12, 100, 101, 1000, 5000, 5001, 9000];

/// strictly increasing value of a rank (ranks beyond the table continue above it)
fn val(r: u8) -> i32 {
    if (r as usize) < SPREAD.len() {
        SPREAD[r as usize]
    } else {
        9000 + (r as i32) * 7
    }
}

/// long-lane input families (ranks): increasing, decreasing, organ pipe, two-valued, all equal, sawtooth
fn long_input(n: usize, fam: usize) -> Vec<u8> {
    (0..n)
        .map(|i| match fam {
            0 => i as u8,
            1 => (n - 1 - i) as u8,
            2 => (if i < n / 2 { 2 * i } else { 2 * (n - 1 - i) + 1 }) as u8,
            3 => (i % 2) as u8,
            4 => 0u8,
            _ => (i % 7) as u8,
        })
        .collect()
}

#[derive(Debug, Clone)]
struct Single {
    pat: Vec<u8>,
    i: usize,
    step: isize,
    mode: Mode,
}

#[derive(Debug, Clone, Copy, PartialEq)]
enum Mode {
    AllPivots,
    Bounded(Policy, u32),
    /// deviations only among the first choice points
    Shallow(Policy, u32, usize),
}

impl Mode {
    fn pm(self) -> PivotMode {
        match self {
            Mode::AllPivots => PivotMode::All,
            Mode::Bounded(p, b) => PivotMode::Bounded { policy: p, bound: b },
            Mode::Shallow(p, b, d) => PivotMode::BoundedShallow { policy: p, bound: b, depth: d },
        }
    }
}

fn single_body(c: &Single, lx: &mut Local) {
    let n = c.pat.len();
    let vals: Vec<i32> = c.pat.iter().map(|&r| val(r)).collect();
    let mut sorted = vals.clone();
    sorted.sort();
    let want = sorted[c.i];
    lx.nontrivial(n >= 2 && c.pat.iter().any(|&r| r != c.pat[0]));
    lx.explore(&c.mode.pm(), |lx| {
        let (r, after) = if c.step == 1 {
            let mut a = Array1::from(vals.clone());
            let r = guarded(|| a.get_from_sorted_mut(c.i));
            (r, a.to_vec())
        } else {
            let mut h = Host1::new(&vals, c.step, 1, -99);
            let before = h.memory();
            let r = guarded(|| h.view_mut().get_from_sorted_mut(c.i));
            if let Err(_k) = nsmc::layouts::guards_intact(&before, &h.memory(), &h.view_offsets(), |x, y| x == y) {
                lx.count("cells_outside_the_view_changed (not judged here: property C03)", 1);
            }
            (r, h.logical())
        };
        let piv = nsmc::explore::current_pivots();
        if let Some(&p0) = piv.first() {
            let rank = vals.iter().filter(|x| **x < vals[p0]).count();
            if rank == c.i {
                lx.count("first_partition_index_equals_requested_index", 1);
            }
            if p0 == 0 {
                lx.count("first_pivot_is_first_element", 1);
            }
            if p0 == n - 1 {
                lx.count("first_pivot_is_last_element", 1);
            }
            if vals.iter().filter(|x| **x == vals[p0]).count() >= 2 {
                lx.count("first_pivot_value_has_duplicates", 1);
            }
        }
        match &r {
            Err(msg) => lx.fail("C02/in-range-panic", || format!("get_from_sorted_mut({}) on {:?} panicked: {}", c.i, vals, msg)),
            Ok(v) => {
                lx.check(*v == want, "C02/wrong-value", || format!("get_from_sorted_mut({}) on {:?} (step {}) returned {} but sorted[{}] = {}", c.i, vals, c.step, v, c.i, want));
                lx.check(after[..c.i].iter().all(|x| *x <= *v) && after[c.i..].iter().all(|x| *x >= *v), "C02/postcondition", || {
                    format!("after get_from_sorted_mut({}) on {:?} -> {}: array {:?} is not split around position {}", c.i, vals, v, after, c.i)
                });
            }
        }
        let mut b = after.clone();
        b.sort();
        if !(b == sorted) {
            lx.count("multiset_changed (not judged here: property C03)", 1);
        }
        hash_of(&(r.ok(), after))
    });
}

#[derive(Debug, Clone)]
struct Bulk {
    pat: Vec<u8>,
    mask: u32,
    variant: u8,
    mode: Mode,
    step: isize,
    /// explicit index list (long lanes); overrides mask/variant when non-empty
    explicit: Vec<usize>,
}

fn index_list(n: usize, mask: u32, variant: u8) -> Vec<usize> {
    let set: Vec<usize> = (0..n).filter(|i| mask >> i & 1 == 1).collect();
    match variant {
        0 => set,
        1 => set.into_iter().rev().collect(),
        _ => {
            // unordered with repeats: interleave the reversed set with the set, then rotate by one
            let mut v: Vec<usize> = Vec::new();
            for (a, b) in set.iter().rev().zip(set.iter()) {
                v.push(*a);
                v.push(*b);
            }
            if !v.is_empty() {
                v.rotate_left(1);
            }
            v
        }
    }
}

fn bulk_body(c: &Bulk, lx: &mut Local) {
    let n = c.pat.len();
    let vals: Vec<i32> = c.pat.iter().map(|&r| val(r)).collect();
    let mut sorted = vals.clone();
    sorted.sort();
    let idx = if c.explicit.is_empty() { index_list(n, c.mask, c.variant) } else { c.explicit.clone() };
    let mut distinct = idx.clone();
    distinct.sort();
    distinct.dedup();
    lx.nontrivial(n >= 2 && distinct.len() >= 1 && c.pat.iter().any(|&r| r != c.pat[0]));
    lx.explore(&c.mode.pm(), |lx| {
        let ix = Array1::from(idx.clone());
        let (r, after) = if c.step == 1 {
            let mut a = Array1::from(vals.clone());
            let r = guarded(|| a.get_many_from_sorted_mut(&ix));
            (r, a.to_vec())
        } else {
            let mut h = Host1::new(&vals, c.step, 1, -99);
            let before = h.memory();
            let r = guarded(|| h.view_mut().get_many_from_sorted_mut(&ix));
            if let Err(_k) = nsmc::layouts::guards_intact(&before, &h.memory(), &h.view_offsets(), |x, y| x == y) {
                lx.count("cells_outside_the_view_changed (not judged here: property C03)", 1);
            }
            (r, h.logical())
        };
        let obs = match &r {
            Err(msg) => {
                lx.fail("C02/bulk-in-range-panic", || format!("get_many_from_sorted_mut({:?}) on {:?} panicked: {}", idx, vals, msg));
                None
            }
            Ok(m) => {
                let keys: Vec<usize> = m.keys().cloned().collect();
                lx.check(keys == distinct, "C02/bulk-keys", || format!("get_many_from_sorted_mut({:?}) on {:?}: keys iterate as {:?}, expected {:?}", idx, vals, keys, distinct));
                for (k, v) in m.iter() {
                    if *k < n {
                        lx.check(*v == sorted[*k], "C02/bulk-wrong-value", || format!("get_many_from_sorted_mut({:?}) on {:?}: entry {} -> {} but sorted[{}] = {}", idx, vals, k, v, k, sorted[*k]));
                    }
                }
                Some(m.iter().map(|(k, v)| (*k, *v)).collect::<Vec<_>>())
            }
        };
        let mut b = after.clone();
        b.sort();
        if !(b == sorted) {
            lx.count("multiset_changed (not judged here: property C03)", 1);
        }
        hash_of(&(obs, after))
    });
}

fn main() {
    let mut rep = Report::new("C02");
    rep.rule = "case = (weak-order pattern, requested index or index list presentation, view stride); executions = every pivot sequence of the case (or every sequence within the stated deviation bound); non-trivial = length >= 2 and not all elements equal".into();
    rep.assume("selection is generic over Ord + Clone, so behaviour depends only on the weak-order pattern of the input: all patterns up to the complete bound are enumerated");
    rep.assume("the pivot hook (feature verif-hooks) is the only source of nondeterminism; checked by re-executing every 256th execution and comparing observations");
    let n_single = rep.cfg.pick(7, 8);
    let n_bulk = rep.cfg.pick(6, 7);

    // 1. single selection, complete
    let pats: Vec<Vec<u8>> = (1..=n_single).flat_map(weak_orders).collect();
    let cases = pats.into_iter().flat_map(|pat| {
        let n = pat.len();
        (0..n).flat_map(move |i| {
            let pat = pat.clone();
            let steps: Vec<isize> = if n <= 5 { vec![1, 2, -1] } else { vec![1] };
            steps.into_iter().map(move |s| Single { pat: pat.clone(), i, step: s, mode: Mode::AllPivots })
        })
    });
    rep.run_sub(
        "single-all-pivots",
        &format!("all weak-order patterns of length 1..={} x every in-range index x ALL pivot sequences; lengths <= 5 also on stepped (2) and reversed (-1) views inside a sentinel parent", n_single),
        cases,
        single_body,
    );

    // 2. bulk selection, complete
    let pats: Vec<Vec<u8>> = std::iter::once(Vec::new()).chain((1..=n_bulk).flat_map(weak_orders)).collect();
    let cases = pats.into_iter().flat_map(|pat| {
        let n = pat.len();
        (0u32..(1 << n)).flat_map(move |mask| {
            let pat = pat.clone();
            // the largest length of the thorough tier: sorted presentation only (2.2e9 instead of 6.7e9 executions)
            let variants: Vec<u8> = if n >= 7 { vec![0] } else if mask.count_ones() >= 2 { vec![0, 1, 2] } else { vec![0, 2] };
            variants.into_iter().flat_map({
                let pat = pat.clone();
                move |v| {
                    let steps: Vec<isize> = if n <= 5 { vec![1, -1, 2] } else { vec![1] };
                    let pat = pat.clone();
                    steps.into_iter().map(move |st| Bulk { pat: pat.clone(), mask, variant: v, mode: Mode::AllPivots, step: st, explicit: vec![] })
                }
            })
        })
    });
    rep.run_sub(
        "bulk-all-pivots",
        &format!("the empty array (empty request) and all weak-order patterns of length 1..={} x every subset of indexes (incl. empty), presented sorted / reversed / unordered with repeats x ALL pivot sequences; lengths <= 5 also on reversed (-1) and stepped (2) views", n_bulk),
        cases,
        bulk_body,
    );

    // 3. above the complete bound: deviation-bounded
    let (lens, dev): (Vec<usize>, u32) = if rep.cfg.thorough() { (vec![9, 10], 2) } else { (vec![9], 1) };
    let lens2 = lens.clone();
    let cases = lens2.into_iter().flat_map(move |n| {
        sequences(n, 3).flat_map(move |pat| {
            (0..n).flat_map({
                let pat = pat.clone();
                move |i| {
                    let pat = pat.clone();
                    Policy::ALL.iter().map(move |&p| Single { pat: pat.clone(), i, step: 1, mode: Mode::Bounded(p, dev) }).collect::<Vec<_>>()
                }
            })
        })
    });
    rep.run_sub(
        "single-deviation-bounded",
        &format!("all sequences over 3 keys of length {:?} x every index x pivot policies first/last/middle x every pivot sequence with <= {} deviations from the policy", lens, dev),
        cases,
        single_body,
    );
    if rep.cfg.thorough() {
        let cases = vec![11usize, 12].into_iter().flat_map(move |n| {
            sequences(n, 3).flat_map(move |pat| {
                (0..n).flat_map({
                    let pat = pat.clone();
                    move |i| {
                        let pat = pat.clone();
                        Policy::ALL.iter().map(move |&p| Single { pat: pat.clone(), i, step: 1, mode: Mode::Bounded(p, 1) }).collect::<Vec<_>>()
                    }
                })
            })
        });
        rep.run_sub("single-deviation-bounded-long", "all sequences over 3 keys of length 11, 12 x every index x 3 policies x <= 1 deviation", cases, single_body);
    }
    // bulk, deviation-bounded: length 8..9 over 3 keys, all subsets of a 4-index probe set
    let bl: Vec<usize> = if rep.cfg.thorough() { vec![8, 9, 10] } else { vec![8] };
    let bl2 = bl.clone();
    let bdev = rep.cfg.pick(1, 2);
    let cases = bl2.into_iter().flat_map(move |n| {
        sequences(n, 3).flat_map(move |pat| {
            // probe indexes: 0, n/3, n/2, n-1
            let probes = [0usize, n / 3, n / 2, n - 1];
            (1u32..16).flat_map({
                let pat = pat.clone();
                move |m| {
                    let mut mask = 0u32;
                    for (b, p) in probes.iter().enumerate() {
                        if m >> b & 1 == 1 {
                            mask |= 1 << p;
                        }
                    }
                    let pat = pat.clone();
                    Policy::ALL.iter().map(move |&p| Bulk { pat: pat.clone(), mask, variant: 2, mode: Mode::Bounded(p, bdev), step: 1, explicit: vec![] }).collect::<Vec<_>>()
                }
            })
        })
    });
    rep.run_sub(
        "bulk-deviation-bounded",
        &format!("all sequences over 3 keys of length {:?} x every non-empty subset of the probe indexes {{0, n/3, n/2, n-1}} (unordered with repeats) x 3 policies x <= {} deviations", bl, bdev),
        cases,
        bulk_body,
    );
    // 4. long lanes under adversarial pivot policies: recursion depth ~ n (worst case of quickselect),
    //    which is where depth / round budgets, fallbacks and window bookkeeping live
    let nlong = rep.cfg.pick(160, 256);
    let cases = (13..=nlong).flat_map(move |n| {
        (0..6usize).flat_map(move |fam| {
            let pat = long_input(n, fam);
            (0..n).flat_map({
                let pat = pat.clone();
                move |i| {
                    // every index for n <= 40; a spread of indexes above (first, last, around the quartiles, every 7th)
                    let keep = n <= 40 || i < 2 || i + 5 >= n || i % 7 == 3 || i == n / 2 || i == n / 4 || i == 3 * n / 4 || (i % 32 <= 1) || (i % 32 == 31);
                    let pat = pat.clone();
                    Policy::ADVERSARIAL.iter().filter(move |_| keep).map(move |&p| Single { pat: pat.clone(), i, step: if (i + n) % 5 == 0 { -1 } else { 1 }, mode: Mode::Bounded(p, if n <= 24 { 1 } else { 0 }) }).collect::<Vec<_>>()
                }
            })
        })
    });
    rep.run_sub(
        "single-long-lanes-adversarial-policies",
        &format!("every length 13..={} x 6 input families (increasing, decreasing, organ pipe, two-valued, all equal, sawtooth) x indexes (all for n<=40; both ends incl. the last five ranks, quartiles, every 7th and the neighbours of every multiple of 32 above) x policies first / last / parity-alternating ends / middle / second / second-to-last, 0 deviations (<= 1 for n <= 24): executions with recursion depth up to n-1", nlong),
        cases,
        single_body,
    );
    let cases = (13..=nlong).flat_map(move |n| {
        (0..6usize).flat_map(move |fam| {
            let pat = long_input(n, fam);
            let mut sets: Vec<Vec<usize>> = vec![vec![0], vec![n - 1], vec![n / 2], vec![n - 1, 0], vec![n / 3, n / 2, n / 2], vec![1, n - 2, n / 4, 3 * n / 4], (0..n).rev().collect(), (0..n).step_by(5).collect(), (0..n).step_by(2).collect()];
            // index sets around typical block / bitmask thresholds
            let th: Vec<usize> = [31usize, 32, 33, 63, 64, 65, 127, 128, 129, 255].iter().cloned().filter(|&t| t < n).collect();
            if !th.is_empty() {
                sets.push(th.clone());
                sets.push(vec![*th.last().unwrap()]);
            }
            sets.into_iter().enumerate().flat_map({
                let pat = pat.clone();
                move |(si, set)| {
                    let pat = pat.clone();
                    Policy::ADVERSARIAL.iter().map(move |&p| Bulk { pat: pat.clone(), mask: 0, variant: 0, mode: Mode::Bounded(p, 0), step: if (si + n) % 4 == 0 { -1 } else { 1 }, explicit: set.clone() }).collect::<Vec<_>>()
                }
            })
        })
    });
    rep.run_sub(
        "bulk-long-lanes-adversarial-policies",
        &format!("every length 13..={} x 6 input families x 9-11 index sets (single ends, middle, sparse, with repeats, every 5th, every 2nd, all positions in decreasing order, the thresholds 31..33, 63..65, 127..129, 255 below n) x 6 adversarial policies, 0 deviations; every 4th case on a reversed view", nlong),
        cases,
        bulk_body,
    );
    // 5. lanes around size thresholds with ONE deviation among the first choice points (pivot samplers,
    //    median-of-k schemes: several draws per step, one of which differs)
    let tl: Vec<usize> = if rep.cfg.thorough() { vec![31, 32, 33, 63, 64, 65, 127, 128, 129, 130, 200, 255, 256] } else { vec![64, 65, 127, 128, 129, 130] };
    let tl2 = tl.clone();
    let cases = tl2.into_iter().flat_map(|n| {
        (0..4usize).flat_map(move |fam| {
            let pat = long_input(n, fam);
            [0usize, n / 2, n - 1].iter().flat_map({
                let pat = pat.clone();
                move |&i| {
                    let pat = pat.clone();
                    [Policy::First, Policy::Last, Policy::Middle].iter().map(move |&p| Single { pat: pat.clone(), i, step: 1, mode: Mode::Shallow(p, 1, 6) }).collect::<Vec<_>>()
                }
            }).collect::<Vec<_>>()
        })
    });
    rep.run_sub(
        "threshold-lanes-shallow-deviation",
        &format!("lane lengths {:?} x 4 input families x indexes first / middle / last x policies first / last / middle x every pivot sequence that deviates from the policy at ONE of the first 6 choice points (all alternative pivots there)", tl),
        cases,
        single_body,
    );
    // 6. shared ownership: the selection routines take `&mut self` of any DataMut array; on an ArcArray whose
    //    buffer is shared, and on a CowArray that borrows, they must still return the order statistic
    let spats: Vec<Vec<u8>> = (1..=rep.cfg.pick(5, 6)).flat_map(weak_orders).collect();
    let cases = spats.into_iter().flat_map(|pat| {
        let n = pat.len();
        (0..n).flat_map(move |i| {
            let pat = pat.clone();
            (0..4u8).map(move |kind| (pat.clone(), i, kind))
        })
    });
    rep.run_sub(
        "shared-ownership",
        "all weak-order patterns of length 1..=5 (6) x every index x {ArcArray sharing its buffer with a second handle, CowArray borrowing an array} x {get_from_sorted_mut(i), get_many_from_sorted_mut([i, 0, n-1])} x ALL pivot sequences: no panic (ndarray asserts unique ownership in builds with debug assertions), the true order statistic(s) and the split postcondition on the handle that was passed",
        cases,
        |(pat, i, kind), lx| {
            let n = pat.len();
            let i = *i;
            let vals: Vec<i32> = pat.iter().map(|&r| val(r)).collect();
            let mut sorted = vals.clone();
            sorted.sort();
            lx.nontrivial(n >= 2 && pat.iter().any(|&r| r != pat[0]));
            lx.explore(&PivotMode::All, |lx| {
                let base = Array1::from(vals.clone());
                let shared = base.clone().into_shared();
                let keep = shared.clone();
                let bulk = kind & 1 == 1;
                let req = Array1::from(vec![i, 0, n - 1]);
                let mut want_keys = vec![i, 0, n - 1];
                want_keys.sort();
                want_keys.dedup();
                // (value(s), contents of the handle after the call)
                let (r, after): (Result<Vec<(usize, i32)>, String>, Vec<i32>) = if kind & 2 == 0 {
                    let mut h = shared;
                    let r = if bulk { guarded(|| h.get_many_from_sorted_mut(&req)).map(|m| m.into_iter().collect()) } else { guarded(|| h.get_from_sorted_mut(i)).map(|v| vec![(i, v)]) };
                    (r, h.to_vec())
                } else {
                    let mut h = ndarray::CowArray::from(base.view());
                    let r = if bulk { guarded(|| h.get_many_from_sorted_mut(&req)).map(|m| m.into_iter().collect()) } else { guarded(|| h.get_from_sorted_mut(i)).map(|v| vec![(i, v)]) };
                    (r, h.to_vec())
                };
                let what = format!("{} on {} {:?}", if bulk { format!("get_many_from_sorted_mut({:?})", req.to_vec()) } else { format!("get_from_sorted_mut({})", i) }, if kind & 2 == 0 { "a shared ArcArray" } else { "a borrowing CowArray" }, vals);
                match &r {
                    Err(m) => lx.fail("C02/in-range-panic", || format!("{} panicked: {}", what, m)),
                    Ok(kv) => {
                        if bulk {
                            lx.check(kv.iter().map(|t| t.0).collect::<Vec<_>>() == want_keys, "C02/bulk-keys", || format!("{}: entries {:?}", what, kv));
                        }
                        for (k, v) in kv {
                            if *k < n {
                                lx.check(*v == sorted[*k], "C02/wrong-value", || format!("{}: position {} -> {}, sorted[{}] = {}", what, k, v, k, sorted[*k]));
                            }
                        }
                        if !bulk {
                            let v = kv[0].1;
                            lx.check(after[..i].iter().all(|x| *x <= v) && after[i..].iter().all(|x| *x >= v), "C02/postcondition", || format!("{} -> {}: handle now holds {:?}", what, v, after));
                        }
                    }
                }
                let mut b = after.clone();
                b.sort();
                if !(b == sorted) {
            lx.count("multiset_changed (not judged here: property C03)", 1);
        }
                // (whether the other handle stays intact is C03 / C15, not this property)
                let _ = &keep;
                hash_of(&(r.ok(), after))
            });
        },
    );
    // 7. call histories: two bulk selections one after the other on the same thread. The routines are
    //    stateless by contract; a memo or scratch buffer kept between calls (thread-local or static)
    //    would make the second answer depend on the first call.
    let small: Vec<(Vec<u8>, Vec<usize>)> = std::iter::once(Vec::new())
        .chain((1..=3).flat_map(weak_orders))
        .flat_map(|pat| {
            let n = pat.len();
            (0u32..(1 << n)).flat_map(move |mask| {
                let pat = pat.clone();
                [0u8, 2].iter().map(move |&v| (pat.clone(), index_list(n, mask, v))).collect::<Vec<_>>()
            })
        })
        .collect();
    // two requests that are out of range for their array (the call is rejected; what follows it on the
    // same thread must be unaffected)
    let mut small = small;
    small.push((vec![0, 1], vec![5]));
    small.push((vec![], vec![0]));
    small.push((vec![1, 0, 2], vec![1, 7, 0]));
    let nsmall = small.len();
    let small2 = small.clone();
    let cases = (0..nsmall).flat_map(move |a| {
        let small = small2.clone();
        (0..nsmall).map(move |b| (small[a].clone(), small[b].clone(), (a * 7 + b) % 3))
    });
    rep.run_sub(
        "call-histories",
        &format!("every ordered pair of bulk selections drawn from {} (array, request) combinations (the empty array and all weak-order patterns of length 1..=3 x every index subset, sorted / unordered with repeats; plus three out-of-range requests, which are rejected and whose only role is to precede an in-range call), executed back to back on one thread, pivot policy rotating first / middle / last; followed by a single selection: each answer must be the one the call gives on its own", nsmall),
        cases,
        |(first, second, pol), lx| {
            let policy = [Policy::First, Policy::Middle, Policy::Last][*pol];
            lx.nontrivial(first.0.len() >= 1 && second.0.len() >= 1 && first.0.len() != second.0.len());
            lx.explore(&PivotMode::Bounded { policy, bound: 0 }, |lx| {
                let mut obs = Vec::new();
                for (pat, idx) in [first, second] {
                    let n = pat.len();
                    let vals: Vec<i32> = pat.iter().map(|&r| val(r)).collect();
                    let mut sorted = vals.clone();
                    sorted.sort();
                    let mut distinct = idx.clone();
                    distinct.sort();
                    distinct.dedup();
                    let mut a = Array1::from(vals.clone());
                    if idx.iter().any(|&i| i >= n) {
                        // out of range: the verdict on this call is C16's; only its effect on later calls matters here
                        let _ = guarded(|| a.get_many_from_sorted_mut(&Array1::from(idx.clone())));
                        let _ = guarded(|| a.get_from_sorted_mut(idx[0]));
                        continue;
                    }
                    match guarded(|| a.get_many_from_sorted_mut(&Array1::from(idx.clone()))) {
                        Err(m) => lx.fail("C02/bulk-in-range-panic", || format!("history {:?} then {:?}: get_many_from_sorted_mut({:?}) on {:?} panicked: {}", first, second, idx, vals, m)),
                        Ok(m) => {
                            let keys: Vec<usize> = m.keys().cloned().collect();
                            lx.check(keys == distinct, "C02/bulk-keys", || format!("history {:?} then {:?}: get_many_from_sorted_mut({:?}) on {:?} has keys {:?}", first, second, idx, vals, keys));
                            for (k, v) in m.iter() {
                                if *k < n {
                                    lx.check(*v == sorted[*k], "C02/bulk-wrong-value", || format!("history {:?} then {:?}: entry {} -> {} but sorted[{}] = {}", first, second, k, v, k, sorted[*k]));
                                }
                            }
                            obs.push(m.into_iter().collect::<Vec<_>>());
                        }
                    }
                    if n > 0 {
                        let i = idx.first().cloned().unwrap_or(n - 1).min(n - 1);
                        let mut a = Array1::from(vals.clone());
                        match guarded(|| a.get_from_sorted_mut(i)) {
                            Err(m) => lx.fail("C02/in-range-panic", || format!("history {:?} then {:?}: get_from_sorted_mut({}) on {:?} panicked: {}", first, second, i, vals, m)),
                            Ok(v) => {
                                lx.check(v == sorted[i], "C02/wrong-value", || format!("history {:?} then {:?}: get_from_sorted_mut({}) on {:?} = {}", first, second, i, vals, v));
                            }
                        }
                    }
                }
                hash_of(&obs)
            });
        },
    );
    rep.finish();
}
