//! C19 — quantiles obey order laws independent of any oracle.
use ndarray::prelude::*;
use ndarray_stats::Quantile1dExt;
use noisy_float::types::{n64, N64};
use nsmc::layouts::Host1;
use nsmc::patterns::{q_grid, q_grid_small};
use nsmc::qelem::{k1_applies, QElem};
use nsmc::qoracle::{integral_position, Strat};
use nsmc::*;
use std::collections::BTreeSet;

const K1_KEY: &str = "C19/K1-intermediate-not-representable";

#[derive(Debug, Clone)]
struct Case {
    /// non-decreasing rank vector (the multiset)
    multiset: Vec<u8>,
    ty: u8,
    all_pivots: bool,
    /// which slice of the q grid (slices overlap by one point so that consecutive-pair monotonicity is complete)
    chunk: usize,
}

const CHUNK: usize = 6;

fn distinct_perms(ms: &[u8]) -> Vec<Vec<u8>> {
    let mut out = BTreeSet::new();
    fn rec(rest: &mut Vec<u8>, cur: &mut Vec<u8>, out: &mut BTreeSet<Vec<u8>>) {
        if rest.is_empty() {
            out.insert(cur.clone());
            return;
        }
        let mut last = None;
        for i in 0..rest.len() {
            if Some(rest[i]) == last {
                continue;
            }
            last = Some(rest[i]);
            let x = rest.remove(i);
            cur.push(x);
            rec(rest, cur, out);
            cur.pop();
            rest.insert(i, x);
        }
    }
    rec(&mut ms.to_vec(), &mut Vec::new(), &mut out);
    out.into_iter().collect()
}

/// value (None = panicked) of one call, explored over pivots; returns the set of observed values
fn call_set<T: QElem>(vals: &[T], q: f64, s: Strat, step: isize, mode: &PivotMode, lx: &mut Local) -> Vec<Option<T>> {
    let mut seen: Vec<Option<T>> = Vec::new();
    lx.explore(mode, |lx| {
        let r = if step == 1 {
            let mut a = Array1::from(vals.to_vec());
            guarded(|| nsmc::with_strategy!(s, i, a.quantile_mut(n64(q), i)))
        } else {
            let mut h = Host1::new(vals, step, 1, vals[0].clone());
            guarded(|| nsmc::with_strategy!(s, i, h.view_mut().quantile_mut(n64(q), i)))
        };
        let v: Option<T> = match r {
            Ok(Ok(v)) => Some(v),
            Ok(Err(e)) => {
                lx.fail("C19/error", || format!("quantile_mut({:?},{:?}) on {:?} returned {:?}", q, s, vals, e));
                None
            }
            Err(_) => None,
        };
        if !seen.contains(&v) {
            seen.push(v.clone());
        }
        hash_of(&v.as_ref().map(|x| x.key()))
    });
    seen
}

fn le_tol<T: QElem>(a: &T, b: &T, ulps: f64) -> bool {
    if a <= b {
        return true;
    }
    if T::IS_FLOAT {
        let (x, y) = (a.as_f64(), b.as_f64());
        let scale = x.abs().max(y.abs());
        return x - y <= ulps * f64::EPSILON * scale;
    }
    false
}

fn run<T: QElem>(c: &Case, lx: &mut Local) {
    let n = c.multiset.len();
    let k = c.multiset.iter().map(|&r| r as usize + 1).max().unwrap();
    let full: Vec<f64> = if n <= 4 { q_grid(n) } else { q_grid_small(n) };
    let lo = c.chunk * CHUNK;
    let grid: Vec<f64> = full[lo..(lo + CHUNK + 1).min(full.len())].to_vec();
    let perms = distinct_perms(&c.multiset);
    let mode = if c.all_pivots { PivotMode::All } else { PivotMode::Bounded { policy: Policy::Middle, bound: 2 } };
    // result rank (for selecting strategies) per table, per q, per strategy
    let mut rank_by_table: Vec<Vec<Vec<Option<usize>>>> = Vec::new();
    for table in 0..4u8 {
        // table 2 = 2x+1 relabelling of the spread table where it stays inside the type (skip otherwise)
        // table 3 (i64 only): values beyond 2^53 that f64 cannot represent; Linear goes through f64 by
        // documented design, so for it only the laws that hold regardless are required there
        // (coincidence with Lower at integral positions, q=0 -> min, q=1 -> max)
        let big = table == 3;
        if big && T::NAME != "i64" {
            continue;
        }
        let tb: Vec<T> = match table {
            3 => [(1i64 << 53) + 1, (1i64 << 53) + 3, (1i64 << 60) + 1, (1i64 << 61) + 5, (1i64 << 62) + 1, (1i64 << 62) + 3, (1i64 << 62) + 5, (1i64 << 62) + 7][..k].iter().map(|&x| T::from_i64(x).unwrap()).collect(),
            0 => T::table(0, k),
            1 => T::table(if T::NAME == "i64" { 2 } else { 1 }, k),
            _ => {
                let base = T::table(0, k);
                let two = T::from_u8(2).unwrap();
                let one = T::from_u8(1).unwrap();
                // only when 2x+1 is representable for every table value (true for the spread tables of i64 and N64)
                if T::NAME == "i8" || T::NAME == "u8" {
                    rank_by_table.push(Vec::new());
                    continue;
                }
                base.iter().map(|x| x.clone() * two.clone() + one.clone()).collect()
            }
        };
        let sorted: Vec<T> = c.multiset.iter().map(|&r| tb[r as usize].clone()).collect();
        let (lane_min, lane_max) = (sorted[0].clone(), sorted[n - 1].clone());
        // res[q][strat] = canonical value (from the first permutation)
        let mut res: Vec<Vec<Option<T>>> = Vec::new();
        for (qi, &q) in grid.iter().enumerate() {
            let mut row: Vec<Option<T>> = Vec::new();
            for &s in &Strat::ALL {
                let k1 = k1_applies(&sorted, q, s).is_some();
                let mut canonical: Option<Option<T>> = None;
                for (pi, perm) in perms.iter().enumerate() {
                    let vals: Vec<T> = perm.iter().map(|&r| tb[r as usize].clone()).collect();
                    let step = [1isize, 2, -1][(pi + qi) % 3];
                    let set = call_set(&vals, q, s, step, &mode, lx);
                    if set.len() != 1 {
                        lx.fail(if k1 { K1_KEY } else { "C19/pivot-dependent-result" }, || format!("[{}] quantile_mut({:?},{:?}) on {:?} gives {:?} depending on the pivots", T::NAME, q, s, vals, set));
                    }
                    let v = set[0].clone();
                    if v.is_none() {
                        lx.fail(if k1 { K1_KEY } else { "C19/panic" }, || format!("[{}] quantile_mut({:?},{:?}) on {:?} panicked", T::NAME, q, s, vals));
                    }
                    match &canonical {
                        None => canonical = Some(v),
                        Some(cv) => {
                            if *cv != v {
                                lx.fail(if k1 { K1_KEY } else { "C19/permutation-dependent" }, || format!("[{}] quantile({:?},{:?}) = {:?} for one arrangement of {:?} but {:?} for the arrangement {:?}", T::NAME, q, s, cv, sorted, v, vals));
                            }
                        }
                    }
                }
                row.push(canonical.unwrap());
            }
            res.push(row);
        }
        // laws on res
        let mut ranks: Vec<Vec<Option<usize>>> = Vec::new();
        for (qi, &q) in grid.iter().enumerate() {
            let row = &res[qi];
            let k1_any = |ss: &[usize]| ss.iter().any(|&si| k1_applies(&sorted, q, Strat::ALL[si]).is_some());
            // bounds
            for (si, v) in row.iter().enumerate() {
                if let Some(v) = v {
                    if !(big && si == 4) && !(le_tol(&lane_min, v, 2.0) && le_tol(v, &lane_max, 2.0)) {
                        lx.fail(if k1_any(&[si]) { K1_KEY } else { "C19/outside-min-max" }, || format!("[{}] quantile({:?},{:?}) = {:?} outside [{:?},{:?}] for {:?}", T::NAME, q, Strat::ALL[si], v, lane_min, lane_max, sorted));
                    }
                    if q == 0.0 && *v != lane_min {
                        lx.fail(if k1_any(&[si]) { K1_KEY } else { "C19/q0-not-min" }, || format!("[{}] quantile(0,{:?}) = {:?}, minimum is {:?} for {:?}", T::NAME, Strat::ALL[si], v, lane_min, sorted));
                    }
                    if q == 1.0 && *v != lane_max {
                        lx.fail(if k1_any(&[si]) { K1_KEY } else { "C19/q1-not-max" }, || format!("[{}] quantile(1,{:?}) = {:?}, maximum is {:?} for {:?}", T::NAME, Strat::ALL[si], v, lane_max, sorted));
                    }
                }
            }
            // Lower <= {Nearest, Midpoint, Linear} <= Higher
            if let (Some(lo), Some(hi)) = (&row[0], &row[1]) {
                lx.check(lo <= hi, "C19/lower-above-higher", || format!("[{}] q={:?}: Lower {:?} > Higher {:?} for {:?}", T::NAME, q, lo, hi, sorted));
                for si in 2..5 {
                    if big && si == 4 {
                        continue;
                    }
                    if let Some(v) = &row[si] {
                        if !(le_tol(lo, v, 1.0) && le_tol(v, hi, 1.0)) {
                            lx.fail(if k1_any(&[si]) { K1_KEY } else { "C19/strategy-order" }, || format!("[{}] q={:?}: {:?} = {:?} not within [Lower {:?}, Higher {:?}] for {:?}", T::NAME, q, Strat::ALL[si], v, lo, hi, sorted));
                        }
                    }
                }
            }
            // one reading for all five strategies: the floor/ceil index pair and the fraction are shared by the
            // strategies, so some single admissible reading of (N-1)q must explain all five results at once
            if !big && row.iter().all(|v| v.is_some()) && !k1_any(&[3, 4]) {
                let consistent = nsmc::qoracle::readings(q, n).iter().any(|r| (0..5).all(|si| nsmc::qelem::accepts_under(&sorted, r, Strat::ALL[si], row[si].as_ref().unwrap())));
                lx.check(consistent, "C19/strategies-use-different-positions", || format!("[{}] q={:?} on {:?}: results {:?} (Lower, Higher, Nearest, Midpoint, Linear) are not explained by any single reading of the position (N-1)q", T::NAME, q, sorted, row));
            }
            // all five coincide at integral positions
            if integral_position(q, n) {
                lx.count("integral_position_points", 1);
                for si in 1..5 {
                    if row[si] != row[0] {
                        lx.fail(if k1_any(&[0, si]) { K1_KEY } else { "C19/integral-position-disagreement" }, || format!("[{}] (N-1)q integral at q={:?} but Lower = {:?} and {:?} = {:?} for {:?}", T::NAME, q, row[0], Strat::ALL[si], row[si], sorted));
                    }
                }
            }
            // monotone in q (consecutive grid points; <= is transitive)
            if qi > 0 {
                for si in 0..5 {
                    if big && si == 4 {
                        continue;
                    }
                    if let (Some(a), Some(b)) = (&res[qi - 1][si], &row[si]) {
                        if !le_tol(a, b, 2.0) {
                            let k1 = k1_applies(&sorted, q, Strat::ALL[si]).is_some() || k1_applies(&sorted, grid[qi - 1], Strat::ALL[si]).is_some();
                            lx.fail(if k1 { K1_KEY } else { "C19/not-monotone-in-q" }, || format!("[{}] {:?}: quantile({:?}) = {:?} > quantile({:?}) = {:?} for {:?}", T::NAME, Strat::ALL[si], grid[qi - 1], a, q, b, sorted));
                        }
                    }
                }
            }
            // rank of the selected element (selecting strategies) for the relabelling law
            ranks.push((0..3).map(|si| row[si].as_ref().and_then(|v| tb.iter().position(|t| t == v))).collect());
        }
        rank_by_table.push(ranks);
    }
    // relabelling: Lower/Higher/Nearest select the same rank whatever strictly increasing table is used
    for t in 1..rank_by_table.len() {
        if rank_by_table[t].is_empty() {
            continue;
        }
        for qi in 0..grid.len() {
            for si in 0..3 {
                let (a, b) = (rank_by_table[0][qi][si], rank_by_table[t][qi][si]);
                lx.check(a == b && a.is_some(), "C19/relabelling", || format!("[{}] {:?} at q={:?} selects rank {:?} on the spread table but rank {:?} on table {} for multiset {:?}", T::NAME, Strat::ALL[si], grid[qi], a, b, t, c.multiset));
            }
        }
    }
}

/// whether some difference of two lane values overflows i32 (the recorded finding K1 applies there)
fn k1_gap(lane: &[i32]) -> bool {
    lane.iter().any(|a| lane.iter().any(|b| (*a as i64 - *b as i64).abs() > i32::MAX as i64))
}

fn main() {
    let mut rep = Report::new("C19");
    rep.rule = "case = (multiset of ranks, element type); inside: every distinct arrangement of the multiset x q grid x 5 strategies x value tables (spread, extremes, 2x+1 relabelling; for i64 also values beyond 2^53) x pivot sequences; non-trivial = length >= 2".into();
    rep.assume("monotonicity in q is checked on consecutive points of the sorted q grid (<= is transitive, so this decides every ordered pair of the grid)");
    rep.assume("floating-point Midpoint/Linear: inequalities are allowed 1-2 ulp of slack (the property grants one unit in the last place)");
    let nmax = rep.cfg.pick(5, 6);
    rep.dispatch_chunk = 1;
    let mut cases: Vec<Case> = Vec::new();
    for n in 1..=nmax {
        // all non-decreasing surjective rank vectors = compositions of n
        for comp in 0u32..(1 << (n - 1)) {
            let mut ms = vec![0u8];
            for i in 0..n - 1 {
                let last = *ms.last().unwrap();
                ms.push(if comp >> i & 1 == 1 { last + 1 } else { last });
            }
            let glen = if n <= 4 { q_grid(n).len() } else { q_grid_small(n).len() };
            for ty in 0..3u8 {
                for chunk in 0..((glen + CHUNK - 1) / CHUNK) {
                    cases.push(Case { multiset: ms.clone(), ty, all_pivots: n <= 5, chunk });
                }
            }
        }
    }
    rep.run_sub(
        "order-laws",
        &format!("every multiset of ranks of size 1..={} (every weak-order pattern arises as an arrangement) x every distinct arrangement x q grid (full boundary grid for N<=4, boundary+-1ulp grid above) x 5 strategies x value tables (spread, type extremes, 2x+1) x i8 / i64 / N64 x {} pivot sequences; contiguous, stepped and reversed views rotate", nmax, "ALL (N<=5), <=2 deviations from the middle policy (N=6)"),
        cases.into_iter(),
        |c, lx| {
            lx.nontrivial(c.multiset.len() >= 2);
            match c.ty {
                0 => run::<i8>(c, lx),
                1 => run::<i64>(c, lx),
                _ => run::<N64>(c, lx),
            }
        },
    );
    // long lanes under adversarial pivot policies: the laws that need no oracle
    rep.dispatch_chunk = 16;
    let nlong = rep.cfg.pick(140, 256);
    rep.run_sub(
        "long-lanes-adversarial-policies",
        &format!("every lane length 13..={} x 4 input families x 6 adversarial pivot policies (recursion depth up to n-1) x 5 strategies: q in {{0, 1/(n-1), 0.5, 1-1/(n-1), next_down(1), 1}} - q=0 gives the minimum, q=1 the maximum, monotone in q, Lower <= Higher, all results within [min, max]", nlong),
        (13..=nlong).flat_map(|n| (0..4usize).flat_map(move |fam| Policy::ADVERSARIAL.iter().map(move |&p| (n, fam, p)).collect::<Vec<_>>())),
        |c, lx| {
            let (n, fam, pol) = *c;
            lx.nontrivial(true);
            let vals: Vec<i64> = (0..n).map(|i| match fam { 0 => i as i64, 1 => (n - i) as i64, 2 => ((i * 7919 + 5) % n) as i64, _ => (i % 3) as i64 }).map(|r| r * 10 - 7).collect();
            let (mn, mx) = (*vals.iter().min().unwrap(), *vals.iter().max().unwrap());
            let d = (n - 1) as f64;
            let qs = [0.0, 1.0 / d, 0.5, 1.0 - 1.0 / d, nsmc::patterns::next_down(1.0), 1.0];
            let mode = PivotMode::Bounded { policy: pol, bound: 0 };
            let mut table: Vec<Vec<Option<i64>>> = Vec::new();
            for &q in &qs {
                let mut row = Vec::new();
                for &s in &Strat::ALL {
                    let set = call_set(&vals, q, s, 1, &mode, lx);
                    row.push(set[0]);
                }
                table.push(row);
            }
            for (qi, row) in table.iter().enumerate() {
                for (si, v) in row.iter().enumerate() {
                    match v {
                        None => lx.fail("C19/panic", || format!("quantile_mut({:?},{:?}) on a lane of {} (family {}, policy {:?}) panicked", qs[qi], Strat::ALL[si], n, fam, pol)),
                        Some(v) => {
                            lx.check(mn <= *v && *v <= mx, "C19/outside-min-max", || format!("length {} family {} policy {:?}: quantile({:?},{:?}) = {} outside [{}, {}]", n, fam, pol, qs[qi], Strat::ALL[si], v, mn, mx));
                            if qi == 0 {
                                lx.check(*v == mn, "C19/q0-not-min", || format!("length {} family {} policy {:?}: quantile(0,{:?}) = {}, minimum {}", n, fam, pol, Strat::ALL[si], v, mn));
                            }
                            if qi == qs.len() - 1 {
                                lx.check(*v == mx, "C19/q1-not-max", || format!("length {} family {} policy {:?}: quantile(1,{:?}) = {}, maximum {}", n, fam, pol, Strat::ALL[si], v, mx));
                            }
                            if qi > 0 {
                                if let Some(prev) = table[qi - 1][si] {
                                    lx.check(prev <= *v, "C19/not-monotone-in-q", || format!("length {} family {} policy {:?} {:?}: quantile({:?}) = {} > quantile({:?}) = {}", n, fam, pol, Strat::ALL[si], qs[qi - 1], prev, qs[qi], v));
                                }
                            }
                        }
                    }
                }
                if let (Some(lo), Some(hi)) = (row[0], row[1]) {
                    lx.check(lo <= hi, "C19/lower-above-higher", || format!("length {} policy {:?} q={:?}: Lower {} > Higher {}", n, pol, qs[qi], lo, hi));
                }
            }
        },
    );
    // several long lanes answered by one bulk call: each lane's results obey the laws of ITS lane
    let lls: Vec<usize> = if rep.cfg.thorough() { vec![9, 17, 18, 33, 34, 40, 65, 66, 100, 129] } else { vec![17, 18, 33, 34, 65, 66] };
    let mut mcases: Vec<(usize, usize, usize, usize)> = Vec::new();
    for &ll in &lls {
        for nl in [2usize, 3] {
            for axis in 0..2usize {
                for nq in [8usize, 20, 40, 80] {
                    if nq <= 2 * ll + 2 {
                        mcases.push((ll, nl, axis, nq));
                    }
                }
            }
        }
    }
    rep.run_sub(
        "several-long-lanes-bulk",
        &format!("2 and 3 lanes of length {:?} with disjoint value ranges along either axis x sorted request lists of 8..80 q values from 0 to 1 x 5 strategies: every entry lies within its own lane's [min, max], q=0 / q=1 give that lane's minimum / maximum, entries are non-decreasing along the request list", lls),
        mcases.into_iter(),
        |c, lx| {
            use ndarray_stats::QuantileExt;
            let (ll, nl, axis, nq) = *c;
            lx.nontrivial(true);
            let shape: Vec<usize> = if axis == 1 { vec![nl, ll] } else { vec![ll, nl] };
            let lanes = nsmc::layouts::lanes_flat(&shape, axis);
            let mut data = vec![0i64; nl * ll];
            for (j, lane) in lanes.iter().enumerate() {
                for (k, &fi) in lane.iter().enumerate() {
                    // disjoint value ranges per lane; later lanes hold larger values for axis 0 and smaller ones for axis 1
                    let rank = if axis == 0 { j + 1 } else { nl - j };
                    data[fi] = (((k * (7 + 2 * j) + 3 * j) % ll) as i64) * 10 + 100_000 * rank as i64;
                }
            }
            let mut qs: Vec<f64> = (0..nq).map(|i| i as f64 / (nq - 1) as f64).collect();
            qs[nq - 1] = 1.0;
            let ax = Axis(axis);
            for &strat in &Strat::ALL {
                lx.single(|lx| {
                    let mut a = ndarray::ArrayD::from_shape_vec(ndarray::IxDyn(&shape), data.clone()).unwrap();
                    let qa = Array1::from(qs.iter().map(|&q| n64(q)).collect::<Vec<N64>>());
                    let r = guarded(|| nsmc::with_strategy!(strat, i, a.quantiles_axis_mut(ax, &qa, i)));
                    match r {
                        Ok(Ok(res)) => {
                            for (j, lane) in lanes.iter().enumerate() {
                                let (mn, mx) = (lane.iter().map(|&i| data[i]).min().unwrap(), lane.iter().map(|&i| data[i]).max().unwrap());
                                let mut prev: Option<i64> = None;
                                for jq in 0..nq.min(res.len_of(ax)) {
                                    let v = res.index_axis(ax, jq).iter().cloned().nth(j).unwrap();
                                    lx.check(mn <= v && v <= mx, "C19/outside-min-max", || format!("{:?} {:?}: lane {} entry for q={:?} is {} outside that lane's [{}, {}]", c, strat, j, qs[jq], v, mn, mx));
                                    if jq == 0 {
                                        lx.check(v == mn, "C19/q0-not-min", || format!("{:?} {:?}: lane {} q=0 gives {}, minimum {}", c, strat, j, v, mn));
                                    }
                                    if jq == nq - 1 {
                                        lx.check(v == mx, "C19/q1-not-max", || format!("{:?} {:?}: lane {} q=1 gives {}, maximum {}", c, strat, j, v, mx));
                                    }
                                    if let Some(p) = prev {
                                        lx.check(p <= v, "C19/not-monotone-in-q", || format!("{:?} {:?}: lane {}: quantile({:?}) = {} > quantile({:?}) = {}", c, strat, j, qs[jq - 1], p, qs[jq], v));
                                    }
                                    prev = Some(v);
                                }
                            }
                            hash_of(&res.iter().cloned().collect::<Vec<_>>())
                        }
                        other => {
                            lx.fail("C19/panic", || format!("quantiles_axis_mut failed: {:?}; {:?} {:?}", other.map(|r| r.map(|_| ())), c, strat));
                            0
                        }
                    }
                });
            }
        },
    );
    // 3-D / 4-D arrays, every axis: each lane's entries obey the laws of its own lane (disjoint value ranges per lane)
    rep.run_sub(
        "lanes-of-nd-arrays",
        "shapes (3,2,4), (2,3,3), (4,2,2,3) x every axis x 5 strategies x a sorted request list of 7 q values from 0 to 1: result shape, each entry within its own lane's [min, max], q=0 / q=1 give that lane's extremes, non-decreasing along the requests",
        [vec![3usize, 2, 4], vec![2, 3, 3], vec![4, 2, 2, 3]].iter().flat_map(|sh| (0..sh.len()).map(move |ax| (sh.clone(), ax)).collect::<Vec<_>>()),
        |c, lx| {
            use ndarray_stats::QuantileExt;
            let (shape, axis) = c;
            lx.nontrivial(true);
            let lanes = nsmc::layouts::lanes_flat(shape, *axis);
            let n: usize = shape.iter().product();
            let ll = shape[*axis];
            let mut data = vec![0i64; n];
            for (j, lane) in lanes.iter().enumerate() {
                for (k, &fi) in lane.iter().enumerate() {
                    data[fi] = (((k * 3 + j) % ll) as i64) * 10 + 1000 * ((j * 7 + 3) % lanes.len()) as i64;
                }
            }
            let qs = [0.0, 0.2, 0.4, 0.5, 0.6, 0.9, 1.0];
            let ax = Axis(*axis);
            for &strat in &Strat::ALL {
                lx.single(|lx| {
                    let mut a = ndarray::ArrayD::from_shape_vec(ndarray::IxDyn(shape), data.clone()).unwrap();
                    let qa = Array1::from(qs.iter().map(|&q| n64(q)).collect::<Vec<N64>>());
                    match guarded(|| nsmc::with_strategy!(strat, i, a.quantiles_axis_mut(ax, &qa, i))) {
                        Ok(Ok(res)) => {
                            let mut want = shape.clone();
                            want[*axis] = qs.len();
                            if !lx.check(res.shape() == &want[..], "C19/result-shape", || format!("{:?} {:?}: result shape {:?}, expected {:?}", c, strat, res.shape(), want)) {
                                return 0;
                            }
                            for (j, lane) in lanes.iter().enumerate() {
                                let (mn, mx) = (lane.iter().map(|&i| data[i]).min().unwrap(), lane.iter().map(|&i| data[i]).max().unwrap());
                                let mut prev = i64::MIN;
                                for jq in 0..qs.len() {
                                    let v = res.index_axis(ax, jq).iter().cloned().nth(j).unwrap();
                                    lx.check(mn <= v && v <= mx, "C19/outside-min-max", || format!("{:?} {:?}: lane {} entry for q={:?} is {} outside that lane's [{}, {}]", c, strat, j, qs[jq], v, mn, mx));
                                    lx.check(prev <= v, "C19/not-monotone-in-q", || format!("{:?} {:?}: lane {} not monotone at q={:?}", c, strat, j, qs[jq]));
                                    prev = v;
                                    if jq == 0 {
                                        lx.check(v == mn, "C19/q0-not-min", || format!("{:?} {:?}: lane {} q=0 gives {}, minimum {}", c, strat, j, v, mn));
                                    }
                                    if jq == qs.len() - 1 {
                                        lx.check(v == mx, "C19/q1-not-max", || format!("{:?} {:?}: lane {} q=1 gives {}, maximum {}", c, strat, j, v, mx));
                                    }
                                }
                            }
                            hash_of(&res.iter().cloned().collect::<Vec<_>>())
                        }
                        other => {
                            lx.fail("C19/panic", || format!("quantiles_axis_mut failed: {:?}; {:?}", other.map(|r| r.map(|_| ())), c));
                            0
                        }
                    }
                });
            }
        },
    );
    // short request lists through the bulk entry point: one, two or three q values in any order. The laws
    // need no oracle: q = 0 is the minimum, q = 1 the maximum, entries are ordered like their q, lie
    // within [min, max], and the strategies bracket each other for the same request.
    let mut scases: Vec<(usize, u8, Vec<f64>)> = Vec::new();
    for n in 2..=9usize {
        let pool: Vec<f64> = vec![0.0, 1.0, 0.5, 0.25, 0.75, 1.0 / (n - 1) as f64, (n - 2) as f64 / (n - 1) as f64];
        for fam in 0..2u8 {
            for a in 0..pool.len() {
                scases.push((n, fam, vec![pool[a]]));
                for b in 0..pool.len() {
                    scases.push((n, fam, vec![pool[a], pool[b]]));
                    for c in 0..pool.len() {
                        if (a + b + c + n) % 2 == 0 {
                            scases.push((n, fam, vec![pool[a], pool[b], pool[c]]));
                        }
                    }
                }
            }
        }
    }
    rep.run_sub(
        "short-bulk-requests",
        "1-D lanes of length 2..=9 (distinct values in a scrambled order; values with ties) x every request list of one or two q values and half of the lists of three (in every order, with repeats) from {0, 1, 1/2, 1/4, 3/4, 1/(n-1), (n-2)/(n-1)} through quantiles_mut x 5 strategies; ALL pivot sequences for n <= 4, policies first / middle / last above: q=0 gives the minimum, q=1 the maximum, entries lie in [min, max] and are ordered like their q, Lower <= {Nearest, Midpoint, Linear} <= Higher entry by entry",
        scases.into_iter(),
        |(n, fam, qs), lx| {
            let n = *n;
            lx.nontrivial(true);
            let data: Vec<i64> = (0..n).map(|k| if *fam == 0 { ((k * 5 + 3) % n) as i64 * 10 - 20 } else { ((k * 5 + 3) % n / 2) as i64 * 10 - 20 }).collect();
            let (mn, mx) = (*data.iter().min().unwrap(), *data.iter().max().unwrap());
            let modes: Vec<PivotMode> = if n <= 4 { vec![PivotMode::All] } else { vec![PivotMode::Bounded { policy: Policy::First, bound: 0 }, PivotMode::Bounded { policy: Policy::Middle, bound: 0 }, PivotMode::Bounded { policy: Policy::Last, bound: 0 }] };
            let qa = Array1::from(qs.iter().map(|&q| n64(q)).collect::<Vec<N64>>());
            for mode in &modes {
                let mut per_strategy: Vec<Option<Vec<i64>>> = Vec::new();
                for &strat in &Strat::ALL {
                    let mut answer: Option<Vec<i64>> = None;
                    // every other request list is handed over as a reversed view of an array holding it backwards
                    let backwards = Array1::from(qs.iter().rev().map(|&q| n64(q)).collect::<Vec<N64>>());
                    let as_reversed_view = (qs.len() + n) % 2 == 0;
                    lx.explore(mode, |lx| {
                        let mut a = Array1::from(data.clone());
                        let r = if as_reversed_view {
                            let view = backwards.slice(ndarray::s![..;-1]);
                            guarded(|| nsmc::with_strategy!(strat, i, a.quantiles_mut(&view, i)))
                        } else {
                            guarded(|| nsmc::with_strategy!(strat, i, a.quantiles_mut(&qa, i)))
                        };
                        match r {
                            Ok(Ok(res)) => {
                                let v: Vec<i64> = res.to_vec();
                                if !lx.check(v.len() == qs.len(), "C19/result-shape", || format!("quantiles_mut({:?}, {:?}) on {:?} has {} entries", qs, strat, data, v.len())) {
                                    return 0;
                                }
                                for (j, &q) in qs.iter().enumerate() {
                                    lx.check(mn <= v[j] && v[j] <= mx, "C19/outside-min-max", || format!("quantiles_mut({:?}, {:?}) on {:?}: entry {} = {} outside [{}, {}]", qs, strat, data, j, v[j], mn, mx));
                                    if q == 0.0 {
                                        lx.check(v[j] == mn, "C19/q0-not-min", || format!("quantiles_mut({:?}, {:?}) on {:?}: entry {} (q=0) = {}, minimum {}", qs, strat, data, j, v[j], mn));
                                    }
                                    if q == 1.0 {
                                        lx.check(v[j] == mx, "C19/q1-not-max", || format!("quantiles_mut({:?}, {:?}) on {:?}: entry {} (q=1) = {}, maximum {}", qs, strat, data, j, v[j], mx));
                                    }
                                    for (k, &q2) in qs.iter().enumerate() {
                                        if q < q2 {
                                            lx.check(v[j] <= v[k], "C19/not-monotone-in-q", || format!("quantiles_mut({:?}, {:?}) on {:?}: entry for q={:?} is {} > entry for q={:?} = {}", qs, strat, data, q, v[j], q2, v[k]));
                                        }
                                        if q == q2 {
                                            lx.check(v[j] == v[k], "C19/repeated-q-differs", || format!("quantiles_mut({:?}, {:?}) on {:?}: entries {} and {} for the same q differ: {} / {}", qs, strat, data, j, k, v[j], v[k]));
                                        }
                                    }
                                }
                                if let Some(prev) = &answer {
                                    lx.check(*prev == v, "C19/pivot-dependent-result", || format!("quantiles_mut({:?}, {:?}) on {:?} gives {:?} or {:?} depending on the pivots", qs, strat, data, prev, v));
                                }
                                answer = Some(v.clone());
                                hash_of(&v)
                            }
                            other => {
                                lx.fail("C19/panic", || format!("quantiles_mut({:?}, {:?}) on {:?} failed: {:?}", qs, strat, data, other.map(|r| r.map(|_| ()))));
                                0
                            }
                        }
                    });
                    per_strategy.push(answer);
                }
                // Strat::ALL order: find Lower and Higher by name
                let idx = |s: Strat| Strat::ALL.iter().position(|x| *x == s).unwrap();
                if let (Some(lo), Some(hi)) = (&per_strategy[idx(Strat::Lower)], &per_strategy[idx(Strat::Higher)]) {
                    for (si, ans) in per_strategy.iter().enumerate() {
                        if let Some(v) = ans {
                            for j in 0..qs.len().min(v.len()).min(lo.len()).min(hi.len()) {
                                lx.check(lo[j] <= v[j] && v[j] <= hi[j], "C19/strategy-order", || format!("quantiles_mut({:?}) on {:?}: {:?} gives {} at entry {}, Lower {} and Higher {}", qs, data, Strat::ALL[si], v[j], j, lo[j], hi[j]));
                            }
                        }
                    }
                }
            }
        },
    );
    // the same laws through the two remaining ways into the quantile code: lanes of the crate's own
    // NotNone wrapper (fractional values: its numeric conversions take part in Linear / Midpoint), and the
    // NaN-skipping entry point on float lanes (ties arranged as adjacent equal pairs, missing values mixed in)
    let lanes: Vec<Vec<f64>> = vec![
        vec![2.1, 1.9],
        vec![0.25, 3.75, 2.5],
        vec![5.0, 5.0, 9.0, 9.0],
        vec![4.0, 4.0, 7.0],
        vec![9.0, 5.0, 5.0, 9.0],
        vec![1.5, 1.5, 2.5, 2.5, 7.25, 7.25],
        vec![-3.5, 0.125, 0.125, 8.75, -3.5],
        vec![6.0, 6.0, 6.0],
        vec![0.1, 0.2, 0.3, 0.4, 0.5, 0.6, 0.7],
        vec![7.5],
    ];
    let lcases = lanes.into_iter().flat_map(|l| (0..3u8).map(move |kind| (l.clone(), kind)));
    rep.run_sub(
        "not-none-and-skipnan-lanes",
        "10 lanes of fractional values (distinct, tied in adjacent pairs, constant, a single element) x {Array1<NotNone<N64>> through quantile_mut, a float lane through quantile_axis_skipnan_mut, the same lane with NaNs interleaved} x 5 strategies x q in {0, 1/8, .., 1, 0.3, 0.475, 0.57}; pivot policies first / middle / last: minimum at q=0, maximum at q=1, within [min, max], non-decreasing in q, Lower <= X <= Higher (Linear up to 1 ulp)",
        lcases,
        |(lane, kind), lx| {
            use ndarray_stats::{MaybeNan, QuantileExt};
            lx.nontrivial(lane.iter().any(|x| *x != lane[0]));
            let (mn, mx) = (lane.iter().cloned().fold(f64::INFINITY, f64::min), lane.iter().cloned().fold(f64::NEG_INFINITY, f64::max));
            let mut qs: Vec<f64> = (0..=8).map(|k| k as f64 / 8.0).collect();
            qs.extend([0.3, 0.475, 0.57]);
            qs.sort_by(|a, b| a.partial_cmp(b).unwrap());
            for pol in [Policy::First, Policy::Middle, Policy::Last] {
                // results[strategy][q index]
                let mut results: Vec<Vec<Option<f64>>> = Vec::new();
                for &strat in &Strat::ALL {
                    let mut row = Vec::new();
                    for &q in &qs {
                        let mut out: Option<f64> = None;
                        lx.explore(&PivotMode::Bounded { policy: pol, bound: 0 }, |lx| {
                            let r: Result<Option<f64>, String> = match kind {
                                0 => {
                                    let mut a = Array1::from(lane.iter().map(|&v| Some(n64(v)).try_as_not_nan().unwrap().clone()).collect::<Vec<_>>());
                                    guarded(|| nsmc::with_strategy!(strat, i, a.quantile_mut(n64(q), i)).ok().map(|x| (*x).raw()))
                                }
                                _ => {
                                    let mut data: Vec<f64> = Vec::new();
                                    for (k, &v) in lane.iter().enumerate() {
                                        if *kind == 2 && k % 2 == 1 {
                                            data.push(f64::NAN);
                                        }
                                        data.push(v);
                                    }
                                    if *kind == 2 {
                                        data.push(f64::NAN);
                                    }
                                    let mut a = Array1::from(data);
                                    guarded(|| nsmc::with_strategy!(strat, i, a.quantile_axis_skipnan_mut(Axis(0), n64(q), i)).ok().map(|x| x.into_scalar()))
                                }
                            };
                            match r {
                                Ok(Some(v)) => {
                                    lx.check(mn <= v && v <= mx, "C19/outside-min-max", || format!("kind {} lane {:?} {:?} q={}: {} outside [{}, {}]", kind, lane, strat, q, v, mn, mx));
                                    if q == 0.0 {
                                        lx.check(v == mn, "C19/q0-not-min", || format!("kind {} lane {:?} {:?}: q=0 gives {}, minimum {}", kind, lane, strat, v, mn));
                                    }
                                    if q == 1.0 {
                                        lx.check(v == mx, "C19/q1-not-max", || format!("kind {} lane {:?} {:?}: q=1 gives {}, maximum {}", kind, lane, strat, v, mx));
                                    }
                                    out = Some(v);
                                    v.to_bits()
                                }
                                other => {
                                    lx.fail("C19/panic", || format!("kind {} lane {:?} {:?} q={}: {:?}", kind, lane, strat, q, other));
                                    0
                                }
                            }
                        });
                        row.push(out);
                    }
                    for w in row.windows(2).zip(qs.windows(2)) {
                        if let ([Some(a), Some(b)], [qa, qb]) = (w.0, w.1) {
                            lx.check(a <= b, "C19/not-monotone-in-q", || format!("kind {} lane {:?} {:?}: quantile({}) = {} > quantile({}) = {}", kind, lane, strat, qa, a, qb, b));
                        }
                    }
                    results.push(row);
                }
                let idx = |s: Strat| Strat::ALL.iter().position(|x| *x == s).unwrap();
                for (si, row) in results.iter().enumerate() {
                    for (j, v) in row.iter().enumerate() {
                        if let (Some(v), Some(lo), Some(hi)) = (v, results[idx(Strat::Lower)][j], results[idx(Strat::Higher)][j]) {
                            let slack = if Strat::ALL[si] == Strat::Linear { nsmc::patterns::ulp(hi.abs().max(lo.abs())) } else { 0.0 };
                            lx.check(lo - slack <= *v && *v <= hi + slack, "C19/strategy-order", || format!("kind {} lane {:?} q={}: {:?} gives {}, Lower {} and Higher {}", kind, lane, qs[j], Strat::ALL[si], v, lo, hi));
                        }
                    }
                }
            }
        },
    );
    // lanes of Option<i32> whose values are more than 2^24 apart, through the NaN-skipping entry point:
    // the interpolating strategies convert through the wrapper's numeric conversions
    let ilanes: Vec<Vec<i32>> = vec![vec![7 + (1 << 25) + 3, 7], vec![0, (1 << 24) + 1, (1 << 25) + 7], vec![-(1 << 26) - 5, 3, (1 << 26) + 9, 3]];
    rep.run_sub(
        "option-integer-lanes",
        "3 lanes of Option<i32> with neighbours more than 2^24 apart (missing values interleaved; the lane is a stride-2 view) through quantile_axis_skipnan_mut x 5 strategies x q in {0, 1/4, 1/2, 3/4, 1, 0.3, 1 - 2^-k and 1/2 - 2^-k for k = 20..40}: within [min, max], non-decreasing in q, Lower <= X <= Higher",
        ilanes.into_iter(),
        |lane, lx| {
            use ndarray_stats::QuantileExt;
            lx.nontrivial(true);
            let (mn, mx) = (*lane.iter().min().unwrap(), *lane.iter().max().unwrap());
            let mut qs: Vec<f64> = vec![0.0, 0.25, 0.5, 0.75, 1.0, 0.3];
            for k in 20..=40 {
                qs.push(1.0 - 0.5f64.powi(k));
                qs.push(0.5 - 0.5f64.powi(k));
            }
            qs.sort_by(|a, b| a.partial_cmp(b).unwrap());
            let mut data: Vec<Option<i32>> = Vec::new();
            for &v in lane {
                data.push(Some(v));
                data.push(None);
            }
            let mut results: Vec<Vec<Option<i32>>> = Vec::new();
            for &strat in &Strat::ALL {
                let mut row = Vec::new();
                for &q in &qs {
                    let mut out = None;
                    lx.single(|lx| {
                        // the lane is every second element of a longer array (other values in between)
                        let mut wide: Vec<Option<i32>> = Vec::new();
                        for x in &data {
                            wide.push(*x);
                            wide.push(Some(1_000_000_007));
                        }
                        let mut parent = Array1::from(wide);
                        let mut a = parent.slice_mut(ndarray::s![..;2]);
                        match guarded(|| nsmc::with_strategy!(strat, i, a.quantile_axis_skipnan_mut(Axis(0), n64(q), i)).ok().and_then(|x| x.into_scalar())) {
                            Ok(Some(v)) => {
                                lx.check(mn <= v && v <= mx, "C19/outside-min-max", || format!("Option<i32> lane {:?} {:?} q={:e}: {} outside [{}, {}]", lane, strat, q, v, mn, mx));
                                out = Some(v);
                                v as u64
                            }
                            other => {
                                if !(k1_gap(lane) && matches!(strat, Strat::Midpoint | Strat::Linear)) {
                                    lx.fail("C19/panic", || format!("Option<i32> lane {:?} {:?} q={:e}: {:?}", lane, strat, q, other));
                                }
                                0
                            }
                        }
                    });
                    row.push(out);
                }
                for w in row.windows(2).zip(qs.windows(2)) {
                    if let ([Some(a), Some(b)], [qa, qb]) = (w.0, w.1) {
                        lx.check(a <= b, "C19/not-monotone-in-q", || format!("Option<i32> lane {:?} {:?}: quantile({:e}) = {} > quantile({:e}) = {}", lane, strat, qa, a, qb, b));
                    }
                }
                results.push(row);
            }
            let idx = |s: Strat| Strat::ALL.iter().position(|x| *x == s).unwrap();
            for (si, row) in results.iter().enumerate() {
                for (j, v) in row.iter().enumerate() {
                    if let (Some(v), Some(lo), Some(hi)) = (v, results[idx(Strat::Lower)][j], results[idx(Strat::Higher)][j]) {
                        lx.check(lo <= *v && *v <= hi, "C19/strategy-order", || format!("Option<i32> lane {:?} q={:e}: {:?} gives {}, Lower {} and Higher {}", lane, qs[j], Strat::ALL[si], v, lo, hi));
                    }
                }
            }
        },
    );
    // one lane longer than 2^24 + 1 elements (positions that single precision cannot hold)
    rep.run_sub(
        "huge-lane",
        "one lane of 2^24 + 2 distinct u32 values (increasing; middle pivots): Lower / Higher / Linear at q = 0, 1/2, 1 - the minimum, the two middle elements (their mean), the maximum",
        std::iter::once((1usize << 24) + 2),
        |n, lx| {
            use ndarray_stats::interpolate::{Higher, Linear, Lower};
            lx.nontrivial(true);
            let n = *n;
            lx.single(|lx| {
                let base: Array1<u32> = Array1::from_iter(0..n as u32);
                let mut obs = Vec::new();
                let mid = ((n - 1) / 2) as u32; // (N-1)/2 = mid + 1/2
                for (q, lo, hi, lin) in [(0.0, 0u32, 0u32, 0u32), (1.0, n as u32 - 1, n as u32 - 1, n as u32 - 1), (0.5, mid, mid + 1, mid)] {
                    for strat in 0..3u8 {
                        let mut a = base.clone();
                        let r = guarded(|| match strat {
                            0 => a.quantile_mut(n64(q), &Lower),
                            1 => a.quantile_mut(n64(q), &Higher),
                            _ => a.quantile_mut(n64(q), &Linear),
                        });
                        let want = [lo, hi, lin][strat as usize];
                        match r {
                            Ok(Ok(v)) => {
                                lx.check(v == want, "C19/outside-min-max", || format!("lane of {} elements 0..: quantile_mut({}, {}) = {}, expected {}", n, q, ["Lower", "Higher", "Linear"][strat as usize], v, want));
                                obs.push(v);
                            }
                            other => lx.fail("C19/panic", || format!("lane of {} elements: quantile_mut({}) failed: {:?}", n, q, other)),
                        }
                    }
                }
                hash_of(&obs)
            });
        },
    );
    rep.finish();
}
