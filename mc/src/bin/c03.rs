//! C03 — in-place routines only permute the lanes they were given.
use ndarray::prelude::*;
use ndarray_stats::interpolate::{Linear, Nearest};
use ndarray_stats::{MaybeNan, MaybeNanExt, Quantile1dExt, QuantileExt, Sort1dExt};
use noisy_float::types::n64;
use nsmc::layouts::{all_layouts, covering_layouts, guards_intact, lanes_flat, Host, Host1, Layout};
use nsmc::patterns::weak_orders;
use nsmc::*;

#[derive(Debug, Clone)]
enum R1 {
    Partition(usize),
    Get(usize),
    Many(u32),
    Quantile(u8, u8),
    Quantiles(u8),
    RemoveNanF64(u32),
    RemoveNanOpt(u32),
}

#[derive(Debug, Clone)]
struct Case1 {
    pat: Vec<u8>,
    step: isize,
    r: R1,
}

const QS: [f64; 6] = [0.0, 0.3, 0.5, 0.75, 0.999999, 1.0];

fn sorted<T: Ord + Clone>(v: &[T]) -> Vec<T> {
    let mut s = v.to_vec();
    s.sort();
    s
}

fn body1(c: &Case1, lx: &mut Local) {
    let n = c.pat.len();
    lx.nontrivial(n >= 2 && c.step != 1);
    match &c.r {
        R1::RemoveNanF64(mask) | R1::RemoveNanOpt(mask) => {
            let is_f = matches!(c.r, R1::RemoveNanF64(_));
            lx.single(|lx| {
                if is_f {
                    let vals: Vec<f64> = c.pat.iter().enumerate().map(|(i, &r)| if mask >> i & 1 == 1 { f64::NAN } else { r as f64 - 0.5 }).collect();
                    let mut h = Host1::new(&vals, c.step, n + 2, -99.0);
                    let before: Vec<u64> = h.memory().iter().map(|x| x.to_bits()).collect();
                    let _ = guarded(|| {
                        let v = f64::remove_nan_mut(h.view_mut());
                        v.len()
                    });
                    let after: Vec<u64> = h.memory().iter().map(|x| x.to_bits()).collect();
                    let offs = h.view_offsets();
                    if let Err(i) = guards_intact(&before, &after, &offs, |x, y| x == y) {
                        lx.fail("C03/guard-cell-modified", || format!("f64::remove_nan_mut on {:?} step {}: parent cell {} changed", vals, c.step, i));
                    }
                    let a: Vec<u64> = sorted(&vals.iter().map(|x| x.to_bits()).collect::<Vec<_>>());
                    let b: Vec<u64> = sorted(&h.logical().iter().map(|x| x.to_bits()).collect::<Vec<_>>());
                    lx.check(a == b, "C03/lane-multiset-changed", || format!("f64::remove_nan_mut on {:?} step {} left {:?}", vals, c.step, h.logical()));
                    hash_of(&after)
                } else {
                    let vals: Vec<Option<i32>> = c.pat.iter().enumerate().map(|(i, &r)| if mask >> i & 1 == 1 { None } else { Some(r as i32) }).collect();
                    let mut h = Host1::new(&vals, c.step, n + 2, Some(-99));
                    let before = h.memory();
                    let _ = guarded(|| {
                        let v = <Option<i32>>::remove_nan_mut(h.view_mut());
                        v.len()
                    });
                    let after = h.memory();
                    let offs = h.view_offsets();
                    if let Err(i) = guards_intact(&before, &after, &offs, |x, y| x == y) {
                        lx.fail("C03/guard-cell-modified", || format!("Option<i32>::remove_nan_mut on {:?} step {}: parent cell {} changed", vals, c.step, i));
                    }
                    lx.check(sorted(&vals) == sorted(&h.logical()), "C03/lane-multiset-changed", || format!("Option<i32>::remove_nan_mut on {:?} step {} left {:?}", vals, c.step, h.logical()));
                    hash_of(&after)
                }
            });
        }
        _ => {
            let vals: Vec<i32> = c.pat.iter().map(|&r| r as i32 * 3 - 4).collect();
            lx.explore(&PivotMode::All, |lx| {
                let mut h = Host1::new(&vals, c.step, 2, -99);
                let before = h.memory();
                let r = guarded(|| {
                    let mut v = h.view_mut();
                    match &c.r {
                        R1::Partition(p) => {
                            v.partition_mut(*p);
                        }
                        R1::Get(i) => {
                            v.get_from_sorted_mut(*i);
                        }
                        R1::Many(m) => {
                            let ix: Vec<usize> = (0..n).filter(|i| m >> i & 1 == 1).collect();
                            v.get_many_from_sorted_mut(&Array1::from(ix));
                        }
                        R1::Quantile(qi, s) => {
                            let q = n64(QS[*qi as usize]);
                            if *s == 0 {
                                let _ = v.quantile_mut(q, &Linear);
                            } else {
                                let _ = v.quantile_mut(q, &Nearest);
                            }
                        }
                        R1::Quantiles(s) => {
                            let qs = Array1::from(vec![n64(0.9), n64(0.1), n64(0.5), n64(0.1)]);
                            if *s == 0 {
                                let _ = v.quantiles_mut(&qs, &Linear);
                            } else {
                                let _ = v.quantiles_mut(&qs, &Nearest);
                            }
                        }
                        _ => unreachable!(),
                    }
                });
                if let Err(m) = r {
                    lx.fail("C03/panic", || format!("{:?} on {:?} step {} panicked: {}", c.r, vals, c.step, m));
                }
                let after = h.memory();
                if let Err(i) = guards_intact(&before, &after, &h.view_offsets(), |x, y| x == y) {
                    lx.fail("C03/guard-cell-modified", || format!("{:?} on {:?} step {}: parent cell {} outside the view changed", c.r, vals, c.step, i));
                }
                lx.check(sorted(&vals) == sorted(&h.logical()), "C03/lane-multiset-changed", || format!("{:?} on {:?} step {} left {:?}", c.r, vals, c.step, h.logical()));
                hash_of(&after)
            });
        }
    }
}

#[derive(Debug, Clone, Copy, PartialEq)]
enum RN {
    QAxis(u8, u8),
    QsAxis(u8),
    QSkipF64(u8),
    QSkipOpt(u8),
    MapIdentity,
    MapReverse,
}

#[derive(Debug, Clone)]
struct CaseN {
    shape: Vec<usize>,
    axis: usize,
    layout: Layout,
    family: usize,
    r: RN,
    policy: Policy,
    stat: bool,
}

fn bodyn(c: &CaseN, dev: u32, lx: &mut Local) {
    let lanes = lanes_flat(&c.shape, c.axis);
    let ll = c.shape[c.axis];
    let m = lanes.len();
    let n: usize = c.shape.iter().product();
    lx.nontrivial(true);
    let wos = weak_orders(ll);
    let mode = PivotMode::Bounded { policy: c.policy, bound: dev };
    let ax = Axis(c.axis);
    match c.r {
        RN::QAxis(..) | RN::QsAxis(..) => {
            let mut data = vec![0i32; n];
            for (j, lane) in lanes.iter().enumerate() {
                let pat = &wos[(c.family * m + j) % wos.len()];
                for (k, &fi) in lane.iter().enumerate() {
                    data[fi] = pat[k] as i32 + 100 * j as i32;
                }
            }
            lx.explore(&mode, |lx| {
                let mut h = Host::new(&c.shape, &data, &c.layout, -99);
                let before = h.memory();
                let offs = h.view_offsets();
                let r = guarded(|| {
                    let mut v = h.view_mut();
                    macro_rules! call {
                        ($v:expr) => {
                            match c.r {
                                RN::QAxis(qi, 0) => {
                                    let _ = $v.quantile_axis_mut(ax, n64(QS[qi as usize]), &Linear);
                                }
                                RN::QAxis(qi, _) => {
                                    let _ = $v.quantile_axis_mut(ax, n64(QS[qi as usize]), &Nearest);
                                }
                                RN::QsAxis(0) => {
                                    let _ = $v.quantiles_axis_mut(ax, &Array1::from(vec![n64(0.9), n64(0.1), n64(0.5)]), &Linear);
                                }
                                _ => {
                                    let _ = $v.quantiles_axis_mut(ax, &Array1::from(vec![n64(0.9), n64(0.1), n64(0.5)]), &Nearest);
                                }
                            }
                        };
                    }
                    if c.stat {
                        match c.shape.len() {
                            2 => {
                                let mut s = v.view_mut().into_dimensionality::<Ix2>().unwrap();
                                call!(s)
                            }
                            3 => {
                                let mut s = v.view_mut().into_dimensionality::<Ix3>().unwrap();
                                call!(s)
                            }
                            _ => {
                                let mut s = v.view_mut().into_dimensionality::<Ix4>().unwrap();
                                call!(s)
                            }
                        }
                    } else {
                        call!(v)
                    }
                });
                if let Err(msg) = r {
                    lx.fail("C03/panic", || format!("{:?} panicked: {}", c, msg));
                }
                let after = h.memory();
                if let Err(i) = guards_intact(&before, &after, &offs, |x, y| x == y) {
                    lx.fail("C03/guard-cell-modified", || format!("{:?}: parent cell {} outside the view changed", c, i));
                }
                let now: Vec<i32> = h.view().iter().cloned().collect();
                for (j, lane) in lanes.iter().enumerate() {
                    let a = sorted(&lane.iter().map(|&i| data[i]).collect::<Vec<_>>());
                    let b = sorted(&lane.iter().map(|&i| now[i]).collect::<Vec<_>>());
                    lx.check(a == b, "C03/lane-multiset-changed", || format!("{:?}: lane {} held {:?}, now {:?}", c, j, a, b));
                }
                hash_of(&after)
            });
        }
        RN::QSkipF64(_) | RN::QSkipOpt(_) | RN::MapIdentity | RN::MapReverse => {
            // missing-value masks per lane: lane j gets mask (family*m + j) mod 2^ll
            let nm = 1usize << ll;
            let mut data = vec![Some(0i32); n];
            for (j, lane) in lanes.iter().enumerate() {
                let mask = (c.family * m + j) % nm;
                for (k, &fi) in lane.iter().enumerate() {
                    data[fi] = if mask >> k & 1 == 1 { None } else { Some(((k * 5 + j) % 4) as i32 + 100 * j as i32) };
                }
            }
            let as_f: Vec<f64> = data.iter().map(|x| x.map(|v| v as f64).unwrap_or(f64::NAN)).collect();
            let use_f = matches!(c.r, RN::QSkipF64(_)) || (matches!(c.r, RN::MapIdentity | RN::MapReverse) && c.family % 2 == 0);
            lx.explore(&mode, |lx| {
                let keys_before: Vec<i64>;
                let keys_after: Vec<i64>;
                let mem_b: Vec<i64>;
                let mem_a: Vec<i64>;
                let offs: Vec<usize>;
                let r;
                if use_f {
                    let mut h = Host::new(&c.shape, &as_f, &c.layout, -99.0);
                    mem_b = h.memory().iter().map(|x| x.to_bits() as i64).collect();
                    offs = h.view_offsets();
                    keys_before = as_f.iter().map(|x| x.to_bits() as i64).collect();
                    r = guarded(|| {
                        let mut v = h.view_mut();
                        match c.r {
                            RN::QSkipF64(qi) => {
                                let _ = v.quantile_axis_skipnan_mut(ax, n64(QS[qi as usize]), &Linear);
                            }
                            RN::MapIdentity => {
                                let _ = v.map_axis_skipnan_mut(ax, |lane| lane.len());
                            }
                            _ => {
                                let _ = v.map_axis_skipnan_mut(ax, |mut lane| {
                                    let k = lane.len();
                                    for i in 0..k / 2 {
                                        lane.swap(i, k - 1 - i);
                                    }
                                    k
                                });
                            }
                        }
                    });
                    mem_a = h.memory().iter().map(|x| x.to_bits() as i64).collect();
                    keys_after = h.view().iter().map(|x| x.to_bits() as i64).collect();
                } else {
                    let mut h = Host::new(&c.shape, &data, &c.layout, Some(-99));
                    let key = |x: &Option<i32>| x.map(|v| v as i64).unwrap_or(i64::MIN);
                    mem_b = h.memory().iter().map(key).collect();
                    offs = h.view_offsets();
                    keys_before = data.iter().map(key).collect();
                    r = guarded(|| {
                        let mut v = h.view_mut();
                        match c.r {
                            RN::QSkipOpt(qi) => {
                                let _ = v.quantile_axis_skipnan_mut(ax, n64(QS[qi as usize]), &Linear);
                            }
                            RN::MapIdentity => {
                                let _ = v.map_axis_skipnan_mut(ax, |lane| lane.len());
                            }
                            _ => {
                                let _ = v.map_axis_skipnan_mut(ax, |mut lane| {
                                    let k = lane.len();
                                    for i in 0..k / 2 {
                                        lane.swap(i, k - 1 - i);
                                    }
                                    k
                                });
                            }
                        }
                    });
                    mem_a = h.memory().iter().map(key).collect();
                    keys_after = h.view().iter().map(key).collect();
                }
                if let Err(msg) = r {
                    lx.fail("C03/panic", || format!("{:?} panicked: {}", c, msg));
                }
                if let Err(i) = guards_intact(&mem_b, &mem_a, &offs, |x, y| x == y) {
                    lx.fail("C03/guard-cell-modified", || format!("{:?}: parent cell {} outside the view changed", c, i));
                }
                for (j, lane) in lanes.iter().enumerate() {
                    let a = sorted(&lane.iter().map(|&i| keys_before[i]).collect::<Vec<_>>());
                    let b = sorted(&lane.iter().map(|&i| keys_after[i]).collect::<Vec<_>>());
                    lx.check(a == b, "C03/lane-multiset-changed", || format!("{:?}: lane {} held keys {:?}, now {:?}", c, j, a, b));
                }
                hash_of(&mem_a)
            });
        }
    }
}

fn main() {
    let mut rep = Report::new("C03");
    rep.rule = "case = (routine, content family, view layout inside a sentinel parent, pivot policy); executions = pivot sequences; non-trivial = view is strided/offset (1-D) or any n-D case".into();
    rep.assume("multisets are compared on bit patterns (so NaN and signed zeros count); lane contents carry a per-lane offset so an element moved between lanes changes both lanes' multisets");
    let nmax = rep.cfg.pick(5, 6);
    let steps: Vec<isize> = vec![1, 2, 3, -1, -2];
    let pats: Vec<Vec<u8>> = (1..=nmax).flat_map(weak_orders).collect();
    let steps2 = steps.clone();
    let cases = pats.into_iter().flat_map(move |pat| {
        let n = pat.len();
        let mut rs: Vec<R1> = Vec::new();
        for i in 0..n {
            rs.push(R1::Partition(i));
            rs.push(R1::Get(i));
        }
        for m in 1u32..(1 << n) {
            rs.push(R1::Many(m));
        }
        for qi in 0..QS.len() as u8 {
            rs.push(R1::Quantile(qi, 0));
            rs.push(R1::Quantile(qi, 1));
        }
        rs.push(R1::Quantiles(0));
        rs.push(R1::Quantiles(1));
        // NaN removal: the mask matters, not the order pattern: attach masks to the strictly increasing pattern only
        if pat.iter().enumerate().all(|(i, &r)| r as usize == i) {
            for m in 0u32..(1 << n) {
                rs.push(R1::RemoveNanF64(m));
                rs.push(R1::RemoveNanOpt(m));
            }
        }
        let steps = steps2.clone();
        rs.into_iter().flat_map(move |r| {
            let pat = pat.clone();
            steps.clone().into_iter().map(move |s| Case1 { pat: pat.clone(), step: s, r: r.clone() })
        })
    });
    rep.run_sub(
        "one-dimensional",
        &format!("all weak-order patterns of length 1..={} x strides {:?} x {{partition_mut(p), get_from_sorted_mut(i), get_many_from_sorted_mut(every non-empty subset), quantile_mut(6 q x Linear/Nearest), quantiles_mut, remove_nan_mut(f64, Option<i32>; every mask)}} x ALL pivot sequences", nmax, steps),
        cases,
        body1,
    );

    let thorough = rep.cfg.thorough();
    let dev = rep.cfg.pick(2, 3);
    let shapes: Vec<Vec<usize>> = if thorough { vec![vec![2, 3], vec![3, 2], vec![4, 2], vec![2, 2, 3], vec![3, 2, 2], vec![2, 3, 1, 2]] } else { vec![vec![2, 3], vec![3, 2], vec![2, 2, 3], vec![3, 2, 2], vec![2, 3, 1, 2]] };
    let mut cases: Vec<CaseN> = Vec::new();
    for shape in &shapes {
        let d = shape.len();
        let st = [1isize, 2, -1, -2];
        let layouts = if d == 4 && !thorough { covering_layouts(d, &st) } else { all_layouts(d, &st) };
        for axis in 0..d {
            let ll = shape[axis];
            let m: usize = shape.iter().product::<usize>() / ll;
            let nwo = weak_orders(ll).len();
            let fam_q = (nwo + m - 1) / m;
            let fam_m = ((1usize << ll) + m - 1) / m;
            for (li, l) in layouts.iter().enumerate() {
                let mut rs: Vec<(RN, usize)> = Vec::new();
                for f in 0..fam_q {
                    // q index and strategy rotate with the family and layout so that all combinations occur across the space
                    let qi = ((f + li) % QS.len()) as u8;
                    rs.push((RN::QAxis(qi, ((f + li) % 2) as u8), f));
                    rs.push((RN::QsAxis(((f + li + 1) % 2) as u8), f));
                }
                for f in 0..fam_m {
                    let qi = ((f + li) % QS.len()) as u8;
                    rs.push((RN::QSkipF64(qi), f));
                    rs.push((RN::QSkipOpt(qi), f));
                    rs.push((RN::MapIdentity, f));
                    rs.push((RN::MapReverse, f));
                }
                for (r, f) in rs {
                    let pols: Vec<Policy> = if matches!(r, RN::MapIdentity | RN::MapReverse) { vec![Policy::Middle] } else { Policy::ALL.to_vec() };
                    for p in pols {
                        cases.push(CaseN { shape: shape.clone(), axis, layout: l.clone(), family: f, r, policy: p, stat: (li + f) % 2 == 0 && !matches!(r, RN::QSkipF64(_) | RN::QSkipOpt(_) | RN::MapIdentity | RN::MapReverse) });
                    }
                }
            }
        }
    }
    rep.run_sub(
        "n-dimensional",
        &format!("shapes {:?} x every axis x all layouts (4-D: {}) x content families covering every weak-order pattern / every missing-value mask of the lane length in some lane x {{quantile_axis_mut, quantiles_axis_mut (Linear/Nearest, q rotating over {:?}), quantile_axis_skipnan_mut (f64, Option<i32>), map_axis_skipnan_mut (identity; in-place reversal of the lane)}} x 3 pivot policies x <= {} deviations; static (IxN) and dynamic (IxDyn) dimensionality alternate", shapes, if thorough { "all" } else { "covering subset" }, QS, dev),
        cases.into_iter(),
        move |c, lx| bodyn(c, dev, lx),
    );
    rep.finish();
}
