//! C03 — in-place routines only permute the lanes they were given.
use ndarray::prelude::*;
use ndarray_stats::interpolate::{Linear, Nearest};
use ndarray_stats::{MaybeNan, MaybeNanExt, Quantile1dExt, QuantileExt, Sort1dExt};
use noisy_float::types::n64;
use nsmc::layouts::{all_layouts, covering_layouts, guards_intact, lanes_flat, Host, Host1, Layout};
use nsmc::patterns::weak_orders;
use nsmc::*;

#[derive(Debug, Clone)]
enum R1 {
    Partition(usize),
    Get(usize),
    Many(u32),
    ManyList(Vec<usize>),
    Quantile(u8, u8),
    Quantiles(u8),
    RemoveNanF64(u32),
    RemoveNanOpt(u32),
}

#[derive(Debug, Clone)]
struct Case1 {
    pat: Vec<u8>,
    step: isize,
    r: R1,
    /// None: all pivot sequences; Some(p): the single execution under this pivot policy
    policy: Option<Policy>,
    /// with a policy: also every sequence deviating at one of the first `shallow` choice points
    shallow: usize,
}

const QS: [f64; 6] = [0.0, 0.3, 0.5, 0.75, 0.999999, 1.0];

fn sorted<T: Ord + Clone>(v: &[T]) -> Vec<T> {
    let mut s = v.to_vec();
    s.sort();
    s
}

fn body1(c: &Case1, lx: &mut Local) {
    let n = c.pat.len();
    lx.nontrivial(n >= 2 && c.step != 1);
    match &c.r {
        R1::RemoveNanF64(mask) | R1::RemoveNanOpt(mask) => {
            let is_f = matches!(c.r, R1::RemoveNanF64(_));
            lx.single(|lx| {
                if is_f {
                    // missing values are NaNs with distinct payloads / signs: the lane must keep exactly these bit patterns
                    let vals: Vec<f64> = c.pat.iter().enumerate().map(|(i, &r)| if mask >> i & 1 == 1 { f64::from_bits(0x7ff8_0000_0000_0000 | (i as u64 + 1) | if i % 2 == 1 { 1u64 << 63 } else { 0 }) } else { r as f64 - 0.5 }).collect();
                    let mut h = Host1::new(&vals, c.step, n + 2, -99.0);
                    let before: Vec<u64> = h.memory().iter().map(|x| x.to_bits()).collect();
                    let _ = guarded(|| {
                        let v = f64::remove_nan_mut(h.view_mut());
                        v.len()
                    });
                    let after: Vec<u64> = h.memory().iter().map(|x| x.to_bits()).collect();
                    let offs = h.view_offsets();
                    if let Err(i) = guards_intact(&before, &after, &offs, |x, y| x == y) {
                        lx.fail("C03/guard-cell-modified", || format!("f64::remove_nan_mut on {:?} step {}: parent cell {} changed", vals, c.step, i));
                    }
                    let a: Vec<u64> = sorted(&vals.iter().map(|x| x.to_bits()).collect::<Vec<_>>());
                    let b: Vec<u64> = sorted(&h.logical().iter().map(|x| x.to_bits()).collect::<Vec<_>>());
                    lx.check(a == b, "C03/lane-multiset-changed", || format!("f64::remove_nan_mut on {:?} step {} left {:?}", vals, c.step, h.logical()));
                    hash_of(&after)
                } else {
                    let vals: Vec<Option<i32>> = c.pat.iter().enumerate().map(|(i, &r)| if mask >> i & 1 == 1 { None } else { Some(r as i32) }).collect();
                    let mut h = Host1::new(&vals, c.step, n + 2, Some(-99));
                    let before = h.memory();
                    let _ = guarded(|| {
                        let v = <Option<i32>>::remove_nan_mut(h.view_mut());
                        v.len()
                    });
                    let after = h.memory();
                    let offs = h.view_offsets();
                    if let Err(i) = guards_intact(&before, &after, &offs, |x, y| x == y) {
                        lx.fail("C03/guard-cell-modified", || format!("Option<i32>::remove_nan_mut on {:?} step {}: parent cell {} changed", vals, c.step, i));
                    }
                    lx.check(sorted(&vals) == sorted(&h.logical()), "C03/lane-multiset-changed", || format!("Option<i32>::remove_nan_mut on {:?} step {} left {:?}", vals, c.step, h.logical()));
                    hash_of(&after)
                }
            });
        }
        _ => {
            let vals: Vec<i32> = c.pat.iter().map(|&r| r as i32 * 3 - 4).collect();
            let mode = match c.policy {
                None => PivotMode::All,
                Some(p) if c.shallow > 0 => PivotMode::BoundedShallow { policy: p, bound: 1, depth: c.shallow },
                Some(p) => PivotMode::Bounded { policy: p, bound: 0 },
            };
            lx.explore(&mode, |lx| {
                let mut h = Host1::new(&vals, c.step, 2, -99);
                let before = h.memory();
                let r = guarded(|| {
                    let mut v = h.view_mut();
                    match &c.r {
                        R1::Partition(p) => {
                            v.partition_mut(*p);
                        }
                        R1::Get(i) => {
                            v.get_from_sorted_mut(*i);
                        }
                        R1::Many(m) => {
                            let ix: Vec<usize> = (0..n).filter(|i| m >> i & 1 == 1).collect();
                            v.get_many_from_sorted_mut(&Array1::from(ix));
                        }
                        R1::ManyList(ix) => {
                            v.get_many_from_sorted_mut(&Array1::from(ix.clone()));
                        }
                        R1::Quantile(qi, s) => {
                            let q = n64(QS[*qi as usize]);
                            if *s == 0 {
                                let _ = v.quantile_mut(q, &Linear);
                            } else {
                                let _ = v.quantile_mut(q, &Nearest);
                            }
                        }
                        R1::Quantiles(s) => {
                            let qs = Array1::from(vec![n64(0.9), n64(0.1), n64(0.5), n64(0.1)]);
                            if *s == 0 {
                                let _ = v.quantiles_mut(&qs, &Linear);
                            } else {
                                let _ = v.quantiles_mut(&qs, &Nearest);
                            }
                        }
                        _ => unreachable!(),
                    }
                    // what the caller's own handle looks like after the call
                    (v.len(), v.to_vec())
                });
                match &r {
                    Err(m) => lx.fail("C03/panic", || format!("{:?} on {:?} step {} panicked: {}", c.r, vals, c.step, m)),
                    Ok((len, content)) => {
                        lx.check(*len == n && sorted(content) == sorted(&vals), "C03/handle-changed", || format!("{:?} on {:?} step {}: the view the routine was called on now has {} elements {:?}", c.r, vals, c.step, len, content));
                    }
                }
                let after = h.memory();
                if let Err(i) = guards_intact(&before, &after, &h.view_offsets(), |x, y| x == y) {
                    lx.fail("C03/guard-cell-modified", || format!("{:?} on {:?} step {}: parent cell {} outside the view changed", c.r, vals, c.step, i));
                }
                lx.check(sorted(&vals) == sorted(&h.logical()), "C03/lane-multiset-changed", || format!("{:?} on {:?} step {} left {:?}", c.r, vals, c.step, h.logical()));
                hash_of(&after)
            });
            if c.policy.is_none() && n <= 5 {
                lx.explore(&PivotMode::All, |lx| {
                // the same call on an N64 lane in which equal elements are not identical (0.0 and -0.0 alternate within a
                // tie group of rank 1): the very same elements - bit for bit - must still be there
                    let fv: Vec<noisy_float::types::N64> = c.pat.iter().enumerate().map(|(i, &r)| n64(if r == 1 { if i % 2 == 0 { 0.0 } else { -0.0 } } else { r as f64 - 1.0 })).collect();
                    let mut hf = Host1::new(&fv, c.step, 2, n64(-99.0));
                    let _ = guarded(|| {
                        let mut v = hf.view_mut();
                        match &c.r {
                            R1::Partition(p) => {
                                v.partition_mut(*p);
                            }
                            R1::Get(i) => {
                                v.get_from_sorted_mut(*i);
                            }
                            R1::Many(m) => {
                                let ix: Vec<usize> = (0..n).filter(|i| m >> i & 1 == 1).collect();
                                v.get_many_from_sorted_mut(&Array1::from(ix));
                            }
                            R1::Quantile(qi, _) => {
                                let _ = v.quantile_mut(n64(QS[*qi as usize]), &Nearest);
                            }
                            _ => {
                                let _ = v.quantiles_mut(&Array1::from(vec![n64(0.9), n64(0.1), n64(0.5)]), &Nearest);
                            }
                        }
                    });
                    let bits = |v: &[noisy_float::types::N64]| sorted(&v.iter().map(|x| x.raw().to_bits()).collect::<Vec<_>>());
                    lx.check(bits(&fv) == bits(&hf.logical()), "C03/lane-multiset-changed", || format!("{:?} on the N64 lane {:?} (step {}) left {:?}: not the same elements bit for bit (signed zeros)", c.r, fv, c.step, hf.logical()));
                    hash_of(&hf.logical().iter().map(|x| x.raw().to_bits()).collect::<Vec<_>>())
                });
            }
        }
    }
}

#[derive(Debug, Clone, Copy, PartialEq)]
enum RN {
    QAxis(u8, u8),
    QsAxis(u8),
    QSkipF64(u8),
    QSkipOpt(u8),
    MapIdentity,
    MapReverse,
}

#[derive(Debug, Clone)]
struct CaseN {
    shape: Vec<usize>,
    axis: usize,
    layout: Layout,
    family: usize,
    r: RN,
    policy: Policy,
    stat: bool,
}

fn bodyn(c: &CaseN, dev: u32, lx: &mut Local) {
    let lanes = lanes_flat(&c.shape, c.axis);
    let ll = c.shape[c.axis];
    let m = lanes.len();
    let n: usize = c.shape.iter().product();
    lx.nontrivial(true);
    let wos = weak_orders(ll);
    let mode = PivotMode::Bounded { policy: c.policy, bound: dev };
    let ax = Axis(c.axis);
    match c.r {
        RN::QAxis(..) | RN::QsAxis(..) => {
            let mut data = vec![0i32; n];
            for (j, lane) in lanes.iter().enumerate() {
                let pat = &wos[(c.family * m + j) % wos.len()];
                for (k, &fi) in lane.iter().enumerate() {
                    data[fi] = pat[k] as i32 + 100 * j as i32;
                }
            }
            lx.explore(&mode, |lx| {
                let mut h = Host::new(&c.shape, &data, &c.layout, -99);
                let before = h.memory();
                let offs = h.view_offsets();
                let r = guarded(|| {
                    let mut v = h.view_mut();
                    macro_rules! call {
                        ($v:expr) => {
                            match c.r {
                                RN::QAxis(qi, 0) => {
                                    let _ = $v.quantile_axis_mut(ax, n64(QS[qi as usize]), &Linear);
                                }
                                RN::QAxis(qi, _) => {
                                    let _ = $v.quantile_axis_mut(ax, n64(QS[qi as usize]), &Nearest);
                                }
                                RN::QsAxis(0) => {
                                    let _ = $v.quantiles_axis_mut(ax, &Array1::from(vec![n64(0.9), n64(0.1), n64(0.5)]), &Linear);
                                }
                                _ => {
                                    let _ = $v.quantiles_axis_mut(ax, &Array1::from(vec![n64(0.9), n64(0.1), n64(0.5)]), &Nearest);
                                }
                            }
                        };
                    }
                    if c.stat {
                        match c.shape.len() {
                            2 => {
                                let mut s = v.view_mut().into_dimensionality::<Ix2>().unwrap();
                                call!(s)
                            }
                            3 => {
                                let mut s = v.view_mut().into_dimensionality::<Ix3>().unwrap();
                                call!(s)
                            }
                            _ => {
                                let mut s = v.view_mut().into_dimensionality::<Ix4>().unwrap();
                                call!(s)
                            }
                        }
                    } else {
                        call!(v)
                    }
                });
                if let Err(msg) = r {
                    lx.fail("C03/panic", || format!("{:?} panicked: {}", c, msg));
                }
                let after = h.memory();
                if let Err(i) = guards_intact(&before, &after, &offs, |x, y| x == y) {
                    lx.fail("C03/guard-cell-modified", || format!("{:?}: parent cell {} outside the view changed", c, i));
                }
                let now: Vec<i32> = h.view().iter().cloned().collect();
                for (j, lane) in lanes.iter().enumerate() {
                    let a = sorted(&lane.iter().map(|&i| data[i]).collect::<Vec<_>>());
                    let b = sorted(&lane.iter().map(|&i| now[i]).collect::<Vec<_>>());
                    lx.check(a == b, "C03/lane-multiset-changed", || format!("{:?}: lane {} held {:?}, now {:?}", c, j, a, b));
                }
                hash_of(&after)
            });
        }
        RN::QSkipF64(_) | RN::QSkipOpt(_) | RN::MapIdentity | RN::MapReverse => {
            // missing-value masks per lane: lane j gets mask (family*m + j) mod 2^ll
            let nm = 1usize << ll;
            let mut data = vec![Some(0i32); n];
            for (j, lane) in lanes.iter().enumerate() {
                let mask = (c.family * m + j) % nm;
                for (k, &fi) in lane.iter().enumerate() {
                    data[fi] = if mask >> k & 1 == 1 { None } else { Some(((k * 5 + j) % 4) as i32 + 100 * j as i32) };
                }
            }
            let as_f: Vec<f64> = data.iter().map(|x| x.map(|v| v as f64).unwrap_or(f64::NAN)).collect();
            let use_f = matches!(c.r, RN::QSkipF64(_)) || (matches!(c.r, RN::MapIdentity | RN::MapReverse) && c.family % 2 == 0);
            lx.explore(&mode, |lx| {
                let keys_before: Vec<i64>;
                let keys_after: Vec<i64>;
                let mem_b: Vec<i64>;
                let mem_a: Vec<i64>;
                let offs: Vec<usize>;
                let r;
                if use_f {
                    let mut h = Host::new(&c.shape, &as_f, &c.layout, -99.0);
                    mem_b = h.memory().iter().map(|x| x.to_bits() as i64).collect();
                    offs = h.view_offsets();
                    keys_before = as_f.iter().map(|x| x.to_bits() as i64).collect();
                    r = guarded(|| {
                        let mut v = h.view_mut();
                        match c.r {
                            RN::QSkipF64(qi) => {
                                let _ = v.quantile_axis_skipnan_mut(ax, n64(QS[qi as usize]), &Linear);
                            }
                            RN::MapIdentity => {
                                let _ = v.map_axis_skipnan_mut(ax, |lane| lane.len());
                            }
                            _ => {
                                let _ = v.map_axis_skipnan_mut(ax, |mut lane| {
                                    let k = lane.len();
                                    for i in 0..k / 2 {
                                        lane.swap(i, k - 1 - i);
                                    }
                                    k
                                });
                            }
                        }
                    });
                    mem_a = h.memory().iter().map(|x| x.to_bits() as i64).collect();
                    keys_after = h.view().iter().map(|x| x.to_bits() as i64).collect();
                } else {
                    let mut h = Host::new(&c.shape, &data, &c.layout, Some(-99));
                    let key = |x: &Option<i32>| x.map(|v| v as i64).unwrap_or(i64::MIN);
                    mem_b = h.memory().iter().map(key).collect();
                    offs = h.view_offsets();
                    keys_before = data.iter().map(key).collect();
                    r = guarded(|| {
                        let mut v = h.view_mut();
                        match c.r {
                            RN::QSkipOpt(qi) => {
                                let _ = v.quantile_axis_skipnan_mut(ax, n64(QS[qi as usize]), &Linear);
                            }
                            RN::MapIdentity => {
                                let _ = v.map_axis_skipnan_mut(ax, |lane| lane.len());
                            }
                            _ => {
                                let _ = v.map_axis_skipnan_mut(ax, |mut lane| {
                                    let k = lane.len();
                                    for i in 0..k / 2 {
                                        lane.swap(i, k - 1 - i);
                                    }
                                    k
                                });
                            }
                        }
                    });
                    mem_a = h.memory().iter().map(key).collect();
                    keys_after = h.view().iter().map(key).collect();
                }
                if let Err(msg) = r {
                    lx.fail("C03/panic", || format!("{:?} panicked: {}", c, msg));
                }
                if let Err(i) = guards_intact(&mem_b, &mem_a, &offs, |x, y| x == y) {
                    lx.fail("C03/guard-cell-modified", || format!("{:?}: parent cell {} outside the view changed", c, i));
                }
                for (j, lane) in lanes.iter().enumerate() {
                    let a = sorted(&lane.iter().map(|&i| keys_before[i]).collect::<Vec<_>>());
                    let b = sorted(&lane.iter().map(|&i| keys_after[i]).collect::<Vec<_>>());
                    lx.check(a == b, "C03/lane-multiset-changed", || format!("{:?}: lane {} held keys {:?}, now {:?}", c, j, a, b));
                }
                hash_of(&mem_a)
            });
        }
    }
}

fn shared_body(c: &(Vec<u8>, u8), lx: &mut Local) {
    use ndarray::{ArcArray1, ArcArray2, CowArray};
    let (pat, routine) = c;
    let n = pat.len();
    lx.nontrivial(n >= 2);
    let vals: Vec<i32> = pat.iter().map(|&r| r as i32 * 3 - 4).collect();
    // 2-D variant: two rows, second row reversed
    let mut v2: Vec<i32> = vals.clone();
    v2.extend(vals.iter().rev().map(|x| x + 100));
    let fv2: Vec<f64> = v2.iter().enumerate().map(|(i, &x)| if i % 3 == 1 { f64::NAN } else { x as f64 }).collect();
    macro_rules! call1 {
        ($a:expr) => {
            match routine {
                0 => {
                    $a.partition_mut(n / 2);
                }
                1 => {
                    $a.get_from_sorted_mut(n - 1);
                }
                2 => {
                    $a.get_from_sorted_mut(0);
                }
                3 => {
                    $a.get_many_from_sorted_mut(&Array1::from(vec![n - 1, 0]));
                }
                4 => {
                    let _ = $a.quantile_mut(n64(0.5), &Linear);
                }
                _ => {
                    let _ = $a.quantiles_mut(&Array1::from(vec![n64(0.9), n64(0.2)]), &Nearest);
                }
            }
        };
    }
    macro_rules! call2 {
        ($a:expr) => {
            match routine {
                6 => {
                    let _ = $a.quantile_axis_mut(Axis(1), n64(0.5), &Linear);
                }
                _ => {
                    let _ = $a.quantiles_axis_mut(Axis(0), &Array1::from(vec![n64(1.0), n64(0.0)]), &Nearest);
                }
            }
        };
    }
    lx.explore(&PivotMode::All, |lx| {
        let mut obs: Vec<i64> = Vec::new();
        if *routine <= 5 {
            // (a) ArcArray sharing its buffer
            let keep = ArcArray1::from(vals.clone());
            let mut a = keep.clone();
            let r = guarded(|| call1!(a));
            if let Err(m) = r {
                lx.fail("C03/panic", || format!("routine {} on a shared ArcArray {:?} panicked: {}", routine, vals, m));
            }
            lx.check(keep.to_vec() == vals, "C03/shared-handle-modified", || format!("routine {} on one ArcArray handle changed the other handle: {:?} -> {:?}", routine, vals, keep.to_vec()));
            lx.check(sorted(&a.to_vec()) == sorted(&vals), "C03/lane-multiset-changed", || format!("routine {} on a shared ArcArray: {:?} -> {:?}", routine, vals, a.to_vec()));
            obs.extend(a.iter().map(|&x| x as i64));
            // (b) CowArray borrowing an array
            let base = Array1::from(vals.clone());
            {
                let mut cow = CowArray::from(base.view());
                let r = guarded(|| call1!(cow));
                if let Err(m) = r {
                    lx.fail("C03/panic", || format!("routine {} on a borrowing CowArray {:?} panicked: {}", routine, vals, m));
                }
                lx.check(sorted(&cow.to_vec()) == sorted(&vals), "C03/lane-multiset-changed", || format!("routine {} on a borrowing CowArray: {:?} -> {:?}", routine, vals, cow.to_vec()));
            }
            lx.check(base.to_vec() == vals, "C03/borrowed-array-modified", || format!("routine {} through a CowArray changed the immutably borrowed array: {:?} -> {:?}", routine, vals, base.to_vec()));
        } else if *routine <= 7 {
            let keep = ArcArray2::from_shape_vec((2, n), v2.clone()).unwrap();
            let mut a = keep.clone();
            let r = guarded(|| call2!(a));
            if let Err(m) = r {
                lx.fail("C03/panic", || format!("routine {} on a shared ArcArray2 panicked: {}", routine, m));
            }
            lx.check(keep.iter().cloned().collect::<Vec<_>>() == v2, "C03/shared-handle-modified", || format!("routine {} on one ArcArray2 handle changed the other handle: {:?} -> {:?}", routine, v2, keep));
            let base = Array2::from_shape_vec((2, n), v2.clone()).unwrap();
            {
                let mut cow = CowArray::from(base.view());
                let _ = guarded(|| call2!(cow));
            }
            lx.check(base.iter().cloned().collect::<Vec<_>>() == v2, "C03/borrowed-array-modified", || format!("routine {} through a CowArray changed the borrowed 2-D array", routine));
            obs.extend(a.iter().map(|&x| x as i64));
        } else {
            let bits = |v: &[f64]| v.iter().map(|x| x.to_bits()).collect::<Vec<_>>();
            let keep = ArcArray2::from_shape_vec((2, n), fv2.clone()).unwrap();
            let mut a = keep.clone();
            let r = guarded(|| {
                if *routine == 8 {
                    let _ = a.quantile_axis_skipnan_mut(Axis(1), n64(0.5), &Linear);
                } else {
                    let _ = a.map_axis_skipnan_mut(Axis(1), |mut lane| {
                        let k = lane.len();
                        if k >= 2 {
                            lane.swap(0, k - 1);
                        }
                        k
                    });
                }
            });
            if let Err(m) = r {
                lx.fail("C03/panic", || format!("routine {} on a shared f64 ArcArray2 panicked: {}", routine, m));
            }
            lx.check(bits(&keep.iter().cloned().collect::<Vec<_>>()) == bits(&fv2), "C03/shared-handle-modified", || format!("routine {} on one ArcArray2<f64> handle changed the other handle", routine));
            obs.extend(a.iter().map(|x| x.to_bits() as i64));
        }
        hash_of(&obs)
    });
}

fn main() {
    let mut rep = Report::new("C03");
    rep.rule = "case = (routine, content family, view layout inside a sentinel parent, pivot policy); executions = pivot sequences; non-trivial = view is strided/offset (1-D) or any n-D case".into();
    rep.assume("multisets are compared on bit patterns (so NaN and signed zeros count); lane contents carry a per-lane offset so an element moved between lanes changes both lanes' multisets");
    let nmax = rep.cfg.pick(5, 6);
    let steps: Vec<isize> = vec![1, 2, 3, -1, -2];
    let pats: Vec<Vec<u8>> = (1..=nmax).flat_map(weak_orders).collect();
    let steps2 = steps.clone();
    let cases = pats.into_iter().flat_map(move |pat| {
        let n = pat.len();
        let mut rs: Vec<R1> = Vec::new();
        for i in 0..n {
            rs.push(R1::Partition(i));
            rs.push(R1::Get(i));
        }
        for m in 1u32..(1 << n) {
            rs.push(R1::Many(m));
        }
        for qi in 0..QS.len() as u8 {
            rs.push(R1::Quantile(qi, 0));
            rs.push(R1::Quantile(qi, 1));
        }
        rs.push(R1::Quantiles(0));
        rs.push(R1::Quantiles(1));
        // NaN removal: the mask matters, not the order pattern: attach masks to the strictly increasing pattern only
        if pat.iter().enumerate().all(|(i, &r)| r as usize == i) {
            for m in 0u32..(1 << n) {
                rs.push(R1::RemoveNanF64(m));
                rs.push(R1::RemoveNanOpt(m));
            }
        }
        let steps = steps2.clone();
        rs.into_iter().flat_map(move |r| {
            let pat = pat.clone();
            steps.clone().into_iter().map(move |s| Case1 { pat: pat.clone(), step: s, r: r.clone(), policy: None, shallow: 0 })
        })
    });
    rep.run_sub(
        "one-dimensional",
        &format!("all weak-order patterns of length 1..={} x strides {:?} x {{partition_mut(p), get_from_sorted_mut(i), get_many_from_sorted_mut(every non-empty subset), quantile_mut(6 q x Linear/Nearest), quantiles_mut, remove_nan_mut(f64, Option<i32>; every mask)}} x ALL pivot sequences", nmax, steps),
        cases,
        body1,
    );

    // long lanes under adversarial pivot policies (recursion depth ~ n)
    let nlong = rep.cfg.pick(140, 256);
    let cases = (13..=nlong).flat_map(move |n| {
        (0..6usize).flat_map(move |fam| {
            let pat: Vec<u8> = (0..n)
                .map(|i| match fam {
                    0 => i as u8,
                    1 => (n - 1 - i) as u8,
                    2 => (if i < n / 2 { 2 * i } else { 2 * (n - 1 - i) + 1 }) as u8,
                    3 => (i % 2) as u8,
                    4 => 0u8,
                    _ => (i % 7) as u8,
                })
                .collect();
            let mut rs: Vec<R1> = vec![R1::Get(0), R1::Get(n - 1), R1::Get(n / 2), R1::Get(n / 3), R1::Get(n - 2), R1::Quantile(2, 0), R1::Quantile(4, 1), R1::Quantiles(0), R1::ManyList(vec![n - 1, 0]), R1::ManyList(vec![n / 2, n / 2 + 1, 1]), R1::ManyList((0..n).step_by(6).collect())];
            if n <= 40 {
                rs.extend((0..n).map(R1::Get));
            }
            rs.into_iter().enumerate().flat_map({
                let pat = pat.clone();
                move |(ri, r)| {
                    let pat = pat.clone();
                    Policy::ADVERSARIAL.iter().map(move |&p| Case1 { pat: pat.clone(), step: [1isize, -1, 2][(ri + n) % 3], r: r.clone(), policy: Some(p), shallow: if ri < 3 && [64usize, 65, 127, 128, 129, 130].contains(&n) && matches!(p, Policy::First | Policy::Last | Policy::Middle) { 6 } else { 0 } }).collect::<Vec<_>>()
                }
            })
        })
    });
    rep.run_sub(
        "long-lanes-adversarial-policies",
        &format!("every length 13..={} x 6 input families x {{get_from_sorted_mut at the ends / middle / thirds (every index for n<=40), quantile_mut, quantiles_mut, get_many_from_sorted_mut on sparse and dense index lists}} x policies first / last / parity-alternating ends / middle / second / second-to-last (one execution each, recursion depth up to n-1; for lengths 64, 65, 127..130 also every sequence deviating at one of the first 6 choice points) on contiguous / reversed / stepped views inside a sentinel parent", nlong),
        cases,
        body1,
    );

    // shared ownership: mutating through one handle must not be visible through another
    let smax = rep.cfg.pick(4, 5);
    let scases = (1..=smax).flat_map(weak_orders).flat_map(|pat| (0..10u8).map(move |routine| (pat.clone(), routine)));
    rep.run_sub(
        "shared-ownership",
        &format!("all weak-order patterns of length 1..={} x 10 mutating routines called on (a) an ArcArray that shares its buffer with a second handle and (b) a CowArray borrowing an array; ALL pivot sequences; the other handle / the borrowed array must be unchanged and the mutated handle must hold the same multiset", smax),
        scases,
        shared_body,
    );

    // several long lanes in one call (scratch buffers hoisted out of the lane loop, sort-the-lane paths)
    let lls: Vec<usize> = if rep.cfg.thorough() { vec![9, 16, 17, 18, 32, 33, 34, 40, 64, 65, 66, 100, 129, 200] } else { vec![16, 17, 18, 32, 33, 34, 65, 129] };
    let mut mcases: Vec<(usize, usize, usize, usize, usize)> = Vec::new();
    for &ll in &lls {
        for lanes in [2usize, 3] {
            for axis in 0..2usize {
                for nq in [1usize, 5, 12, 24, 48, 90] {
                    if nq <= 2 * ll {
                        mcases.push((ll, lanes, axis, nq, (ll + lanes + axis + nq) % 24));
                    }
                }
            }
        }
    }
    rep.run_sub(
        "several-long-lanes",
        &format!("2 and 3 lanes of length {:?} along either axis of a 2-D array (24 layouts rotating) x quantiles_axis_mut with 1..90 q values (Linear / Nearest), quantile_axis_skipnan_mut, map_axis_skipnan_mut; pivot policies first / middle / last (one execution each): every lane keeps its multiset, guard cells intact", lls),
        mcases.into_iter(),
        |c, lx| {
            let (ll, nl, axis, nq, li) = *c;
            lx.nontrivial(true);
            let shape: Vec<usize> = if axis == 1 { vec![nl, ll] } else { vec![ll, nl] };
            let lanes = lanes_flat(&shape, axis);
            let n = nl * ll;
            let mut data = vec![0i32; n];
            for (j, lane) in lanes.iter().enumerate() {
                for (k, &fi) in lane.iter().enumerate() {
                    data[fi] = (((k * (7 + 2 * j) + 3 * j) % ll) as i32) * 10 + 1000 * j as i32;
                }
            }
            let fdata: Vec<f64> = data.iter().enumerate().map(|(i, &x)| if i % 7 == 3 { f64::NAN } else { x as f64 }).collect();
            let lay = all_layouts(2, &[1, -1, 2])[li].clone();
            let grid = nsmc::patterns::q_grid_small(ll);
            let qs: Vec<noisy_float::types::N64> = (0..nq).map(|i| n64(grid[(i * grid.len() / nq + (i % 3)) % grid.len()])).collect();
            for (pi, pol) in [Policy::First, Policy::Middle, Policy::Last].iter().enumerate() {
                lx.explore(&PivotMode::Bounded { policy: *pol, bound: 0 }, |lx| {
                    let mut h = Host::new(&shape, &data, &lay, -99);
                    let before = h.memory();
                    let offs = h.view_offsets();
                    let r = guarded(|| {
                        let mut v = h.view_mut();
                        if (nq + pi) % 2 == 0 {
                            let _ = v.quantiles_axis_mut(Axis(axis), &Array1::from(qs.clone()), &Linear);
                        } else {
                            let _ = v.quantiles_axis_mut(Axis(axis), &Array1::from(qs.clone()), &Nearest);
                        }
                    });
                    if let Err(m) = r {
                        lx.fail("C03/panic", || format!("quantiles_axis_mut with {} requests on lanes of {} panicked: {}", nq, ll, m));
                    }
                    let after = h.memory();
                    if let Err(i) = guards_intact(&before, &after, &offs, |x, y| x == y) {
                        lx.fail("C03/guard-cell-modified", || format!("{:?}: parent cell {} outside the view changed", c, i));
                    }
                    let now: Vec<i32> = h.view().iter().cloned().collect();
                    for (j, lane) in lanes.iter().enumerate() {
                        let a = sorted(&lane.iter().map(|&i| data[i]).collect::<Vec<_>>());
                        let b = sorted(&lane.iter().map(|&i| now[i]).collect::<Vec<_>>());
                        lx.check(a == b, "C03/lane-multiset-changed", || format!("quantiles_axis_mut with {} requests, lanes of {} ({:?}): lane {} held {:?}.., now {:?}..", nq, ll, c, j, &a[..4.min(a.len())], &b[..4.min(b.len())]));
                    }
                    hash_of(&after)
                });
            }
            // skip-NaN routines on the same shape
            lx.explore(&PivotMode::Bounded { policy: Policy::Middle, bound: 0 }, |lx| {
                let mut h = Host::new(&shape, &fdata, &lay, -99.0);
                let before: Vec<u64> = h.memory().iter().map(|x| x.to_bits()).collect();
                let offs = h.view_offsets();
                let r = guarded(|| {
                    let mut v = h.view_mut();
                    if nq % 2 == 0 {
                        let _ = v.quantile_axis_skipnan_mut(Axis(axis), qs[0], &Linear);
                    } else {
                        let _ = v.map_axis_skipnan_mut(Axis(axis), |mut lane| {
                            let k = lane.len();
                            if k >= 2 {
                                lane.swap(0, k - 1);
                            }
                            k
                        });
                    }
                });
                if let Err(m) = r {
                    lx.fail("C03/panic", || format!("skip-NaN routine on lanes of {} panicked: {}", ll, m));
                }
                let after: Vec<u64> = h.memory().iter().map(|x| x.to_bits()).collect();
                if let Err(i) = guards_intact(&before, &after, &offs, |x, y| x == y) {
                    lx.fail("C03/guard-cell-modified", || format!("{:?} (skip-NaN): parent cell {} outside the view changed", c, i));
                }
                let now: Vec<u64> = h.view().iter().map(|x| x.to_bits()).collect();
                for (j, lane) in lanes.iter().enumerate() {
                    let a = sorted(&lane.iter().map(|&i| fdata[i].to_bits()).collect::<Vec<_>>());
                    let b = sorted(&lane.iter().map(|&i| now[i]).collect::<Vec<_>>());
                    lx.check(a == b, "C03/lane-multiset-changed", || format!("skip-NaN routine, lanes of {} ({:?}): lane {} multiset changed", ll, c, j));
                }
                hash_of(&after)
            });
        },
    );

    let thorough = rep.cfg.thorough();
    let dev = rep.cfg.pick(2, 3);
    let shapes: Vec<Vec<usize>> = if thorough { vec![vec![2, 3], vec![3, 2], vec![4, 2], vec![2, 2, 3], vec![3, 2, 2], vec![2, 3, 1, 2]] } else { vec![vec![2, 3], vec![3, 2], vec![2, 2, 3], vec![3, 2, 2], vec![2, 3, 1, 2]] };
    let mut cases: Vec<CaseN> = Vec::new();
    for shape in &shapes {
        let d = shape.len();
        let st = [1isize, 2, -1, -2];
        let layouts = if d == 4 && !thorough { covering_layouts(d, &st) } else { all_layouts(d, &st) };
        for axis in 0..d {
            let ll = shape[axis];
            let m: usize = shape.iter().product::<usize>() / ll;
            let nwo = weak_orders(ll).len();
            let fam_q = (nwo + m - 1) / m;
            let fam_m = ((1usize << ll) + m - 1) / m;
            for (li, l) in layouts.iter().enumerate() {
                let mut rs: Vec<(RN, usize)> = Vec::new();
                for f in 0..fam_q {
                    // q index and strategy rotate with the family and layout so that all combinations occur across the space
                    let qi = ((f + li) % QS.len()) as u8;
                    rs.push((RN::QAxis(qi, ((f + li) % 2) as u8), f));
                    rs.push((RN::QsAxis(((f + li + 1) % 2) as u8), f));
                }
                for f in 0..fam_m {
                    let qi = ((f + li) % QS.len()) as u8;
                    rs.push((RN::QSkipF64(qi), f));
                    rs.push((RN::QSkipOpt(qi), f));
                    rs.push((RN::MapIdentity, f));
                    rs.push((RN::MapReverse, f));
                }
                for (r, f) in rs {
                    let pols: Vec<Policy> = if matches!(r, RN::MapIdentity | RN::MapReverse) { vec![Policy::Middle] } else { Policy::ALL.to_vec() };
                    for p in pols {
                        cases.push(CaseN { shape: shape.clone(), axis, layout: l.clone(), family: f, r, policy: p, stat: (li + f) % 2 == 0 && !matches!(r, RN::QSkipF64(_) | RN::QSkipOpt(_) | RN::MapIdentity | RN::MapReverse) });
                    }
                }
            }
        }
    }
    rep.run_sub(
        "n-dimensional",
        &format!("shapes {:?} x every axis x all layouts (4-D: {}) x content families covering every weak-order pattern / every missing-value mask of the lane length in some lane x {{quantile_axis_mut, quantiles_axis_mut (Linear/Nearest, q rotating over {:?}), quantile_axis_skipnan_mut (f64, Option<i32>), map_axis_skipnan_mut (identity; in-place reversal of the lane)}} x 3 pivot policies x <= {} deviations; static (IxN) and dynamic (IxDyn) dimensionality alternate", shapes, if thorough { "all" } else { "covering subset" }, QS, dev),
        cases.into_iter(),
        move |c, lx| bodyn(c, dev, lx),
    );
    rep.finish();
}
