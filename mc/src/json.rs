//! Minimal JSON value, printer and parser (no external dependency).
#[derive(Clone, Debug, PartialEq)]
pub enum J {
    Null,
    B(bool),
    U(u64),
    I(i64),
    F(f64),
    S(String),
    Arr(Vec<J>),
    Obj(Vec<(String, J)>),
}

impl J {
    pub fn s(x: &str) -> J {
        J::S(x.to_string())
    }
    pub fn obj(v: Vec<(&str, J)>) -> J {
        J::Obj(v.into_iter().map(|(k, v)| (k.to_string(), v)).collect())
    }
    pub fn get(&self, k: &str) -> Option<&J> {
        match self {
            J::Obj(v) => v.iter().find(|(kk, _)| kk == k).map(|(_, v)| v),
            _ => None,
        }
    }
    pub fn as_str(&self) -> Option<&str> {
        match self {
            J::S(s) => Some(s),
            _ => None,
        }
    }
    pub fn as_u64(&self) -> Option<u64> {
        match self {
            J::U(u) => Some(*u),
            J::I(i) if *i >= 0 => Some(*i as u64),
            J::F(f) if *f >= 0.0 && f.fract() == 0.0 => Some(*f as u64),
            _ => None,
        }
    }
    pub fn as_array(&self) -> Option<&Vec<J>> {
        match self {
            J::Arr(a) => Some(a),
            _ => None,
        }
    }
}

fn esc(s: &str, out: &mut String) {
    out.push('"');
    for c in s.chars() {
        match c {
            '"' => out.push_str("\\\""),
            '\\' => out.push_str("\\\\"),
            '\n' => out.push_str("\\n"),
            '\r' => out.push_str("\\r"),
            '\t' => out.push_str("\\t"),
            c if (c as u32) < 0x20 => out.push_str(&format!("\\u{:04x}", c as u32)),
            c => out.push(c),
        }
    }
    out.push('"');
}

fn write(j: &J, ind: usize, out: &mut String) {
    let pad = |n: usize, out: &mut String| {
        for _ in 0..n {
            out.push(' ');
        }
    };
    match j {
        J::Null => out.push_str("null"),
        J::B(b) => out.push_str(if *b { "true" } else { "false" }),
        J::U(u) => out.push_str(&u.to_string()),
        J::I(i) => out.push_str(&i.to_string()),
        J::F(f) => {
            if f.is_finite() {
                let s = format!("{:?}", f);
                out.push_str(&s);
            } else {
                out.push_str("null");
            }
        }
        J::S(s) => esc(s, out),
        J::Arr(a) => {
            if a.is_empty() {
                out.push_str("[]");
                return;
            }
            out.push_str("[\n");
            for (i, x) in a.iter().enumerate() {
                pad(ind + 1, out);
                write(x, ind + 1, out);
                if i + 1 < a.len() {
                    out.push(',');
                }
                out.push('\n');
            }
            pad(ind, out);
            out.push(']');
        }
        J::Obj(o) => {
            if o.is_empty() {
                out.push_str("{}");
                return;
            }
            out.push_str("{\n");
            for (i, (k, v)) in o.iter().enumerate() {
                pad(ind + 1, out);
                esc(k, out);
                out.push_str(": ");
                write(v, ind + 1, out);
                if i + 1 < o.len() {
                    out.push(',');
                }
                out.push('\n');
            }
            pad(ind, out);
            out.push('}');
        }
    }
}

pub fn to_string_pretty(j: &J) -> String {
    let mut s = String::new();
    write(j, 0, &mut s);
    s.push('\n');
    s
}

struct P<'a> {
    b: &'a [u8],
    i: usize,
}

impl<'a> P<'a> {
    fn ws(&mut self) {
        while self.i < self.b.len() && (self.b[self.i] as char).is_whitespace() {
            self.i += 1;
        }
    }
    fn val(&mut self) -> Result<J, String> {
        self.ws();
        if self.i >= self.b.len() {
            return Err("unexpected end".into());
        }
        match self.b[self.i] {
            b'{' => {
                self.i += 1;
                let mut v = Vec::new();
                loop {
                    self.ws();
                    if self.b.get(self.i) == Some(&b'}') {
                        self.i += 1;
                        break;
                    }
                    let k = match self.val()? {
                        J::S(s) => s,
                        _ => return Err("key must be string".into()),
                    };
                    self.ws();
                    if self.b.get(self.i) != Some(&b':') {
                        return Err("expected ':'".into());
                    }
                    self.i += 1;
                    let x = self.val()?;
                    v.push((k, x));
                    self.ws();
                    match self.b.get(self.i) {
                        Some(b',') => self.i += 1,
                        Some(b'}') => {
                            self.i += 1;
                            break;
                        }
                        _ => return Err("expected ',' or '}'".into()),
                    }
                }
                Ok(J::Obj(v))
            }
            b'[' => {
                self.i += 1;
                let mut v = Vec::new();
                loop {
                    self.ws();
                    if self.b.get(self.i) == Some(&b']') {
                        self.i += 1;
                        break;
                    }
                    v.push(self.val()?);
                    self.ws();
                    match self.b.get(self.i) {
                        Some(b',') => self.i += 1,
                        Some(b']') => {
                            self.i += 1;
                            break;
                        }
                        _ => return Err("expected ',' or ']'".into()),
                    }
                }
                Ok(J::Arr(v))
            }
            b'"' => {
                self.i += 1;
                let mut s = String::new();
                loop {
                    let c = *self.b.get(self.i).ok_or("unterminated string")?;
                    self.i += 1;
                    match c {
                        b'"' => break,
                        b'\\' => {
                            let e = *self.b.get(self.i).ok_or("bad escape")?;
                            self.i += 1;
                            match e {
                                b'n' => s.push('\n'),
                                b't' => s.push('\t'),
                                b'r' => s.push('\r'),
                                b'u' => {
                                    let hex = std::str::from_utf8(&self.b[self.i..self.i + 4]).map_err(|e| e.to_string())?;
                                    let cp = u32::from_str_radix(hex, 16).map_err(|e| e.to_string())?;
                                    s.push(char::from_u32(cp).unwrap_or('?'));
                                    self.i += 4;
                                }
                                other => s.push(other as char),
                            }
                        }
                        _ => {
                            // copy raw utf-8 bytes
                            let start = self.i - 1;
                            let mut end = self.i;
                            while end < self.b.len() && self.b[end] != b'"' && self.b[end] != b'\\' {
                                end += 1;
                            }
                            s.push_str(std::str::from_utf8(&self.b[start..end]).map_err(|e| e.to_string())?);
                            self.i = end;
                        }
                    }
                }
                Ok(J::S(s))
            }
            b't' => {
                self.i += 4;
                Ok(J::B(true))
            }
            b'f' => {
                self.i += 5;
                Ok(J::B(false))
            }
            b'n' => {
                self.i += 4;
                Ok(J::Null)
            }
            _ => {
                let start = self.i;
                while self.i < self.b.len() && matches!(self.b[self.i], b'-' | b'+' | b'.' | b'e' | b'E' | b'0'..=b'9') {
                    self.i += 1;
                }
                let t = std::str::from_utf8(&self.b[start..self.i]).unwrap();
                if let Ok(u) = t.parse::<u64>() {
                    Ok(J::U(u))
                } else if let Ok(i) = t.parse::<i64>() {
                    Ok(J::I(i))
                } else {
                    t.parse::<f64>().map(J::F).map_err(|e| format!("bad number {:?}: {}", t, e))
                }
            }
        }
    }
}

pub fn parse(s: &str) -> Result<J, String> {
    let mut p = P { b: s.as_bytes(), i: 0 };
    p.val()
}
