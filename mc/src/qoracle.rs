//! Reference model for quantiles: sort the lane, compute the position (N-1)q under both
//! admissible readings (exact arithmetic on the double q; the rounded double product of the
//! documented formula), apply the strategy.
use crate::exact::Rat;
use num_bigint::BigInt;
use num_traits::{One, ToPrimitive, Zero};
use std::cmp::Ordering;

#[derive(Clone, Copy, Debug, PartialEq, Eq, Hash)]
pub enum Strat {
    Lower,
    Higher,
    Nearest,
    Midpoint,
    Linear,
}

impl Strat {
    pub const ALL: [Strat; 5] = [Strat::Lower, Strat::Higher, Strat::Nearest, Strat::Midpoint, Strat::Linear];
    pub fn selecting(self) -> bool {
        matches!(self, Strat::Lower | Strat::Higher | Strat::Nearest)
    }
}

#[derive(Clone, Debug, PartialEq)]
pub struct Reading {
    pub lower: usize,
    pub higher: usize,
    /// fractional part of the position, exactly, as frac_num / 2^frac_k
    pub frac_num: BigInt,
    pub frac_k: usize,
    pub half: Ordering,
}

impl Reading {
    pub fn frac(&self) -> Rat {
        Rat::new(self.frac_num.clone(), BigInt::one() << self.frac_k)
    }
    pub fn integral(&self) -> bool {
        self.frac_num.is_zero()
    }
}

fn decompose(x: f64) -> (u64, i64) {
    // x = mant * 2^exp, x >= 0 finite
    let bits = x.to_bits();
    let e = ((bits >> 52) & 0x7ff) as i64;
    let m = bits & ((1u64 << 52) - 1);
    if e == 0 {
        (m, -1074)
    } else {
        (m | (1u64 << 52), e - 1075)
    }
}

fn reading_from_dyadic(num: BigInt, k: usize, n: usize) -> Reading {
    // position = num / 2^k
    let two_k = BigInt::one() << k;
    let fl = &num >> k;
    let rem = &num - (&fl << k);
    let lower = fl.to_usize().unwrap().min(n - 1);
    let higher = if rem.is_zero() { lower } else { (lower + 1).min(n - 1) };
    let twice: BigInt = &rem << 1usize;
    let half = twice.cmp(&two_k);
    Reading { lower, higher, frac_num: rem, frac_k: k, half }
}

/// The admissible readings of the position (N-1)q: [exact] or [exact, float] when they differ.
pub fn readings(q: f64, n: usize) -> Vec<Reading> {
    assert!(n >= 1 && q >= 0.0 && q <= 1.0);
    let (m, e) = decompose(q);
    // exact: q*(n-1) = m*(n-1) * 2^e
    let exact = if e >= 0 {
        reading_from_dyadic(BigInt::from(m) * BigInt::from(n - 1) << (e as usize), 0, n)
    } else {
        reading_from_dyadic(BigInt::from(m) * BigInt::from(n - 1), (-e) as usize, n)
    };
    // float: the f64 product
    let p = q * ((n - 1) as f64);
    let (pm, pe) = decompose(p);
    let float = if pe >= 0 { reading_from_dyadic(BigInt::from(pm) << (pe as usize), 0, n) } else { reading_from_dyadic(BigInt::from(pm), (-pe) as usize, n) };
    if float == exact || (float.lower == exact.lower && float.higher == exact.higher && float.frac() == exact.frac()) {
        vec![exact]
    } else {
        vec![exact, float]
    }
}

/// Closed integer intervals of admissible results for a sorted integer lane.
pub fn allowed_int(sorted: &[i128], q: f64, s: Strat) -> Vec<(i128, i128)> {
    let n = sorted.len();
    let mut out: Vec<(i128, i128)> = Vec::new();
    for r in readings(q, n) {
        out.extend(allowed_int_r(sorted, &r, s));
    }
    out.sort();
    out.dedup();
    out
}

/// Admissible integer results under ONE reading of the position.
pub fn allowed_int_r(sorted: &[i128], r: &Reading, s: Strat) -> Vec<(i128, i128)> {
    let mut out: Vec<(i128, i128)> = Vec::new();
    {
        let (l, h) = (sorted[r.lower], sorted[r.higher]);
        match s {
            Strat::Lower => out.push((l, l)),
            Strat::Higher => out.push((h, h)),
            Strat::Nearest => match r.half {
                Ordering::Less => out.push((l, l)),
                Ordering::Greater => out.push((h, h)),
                Ordering::Equal => {
                    out.push((l, l));
                    out.push((h, h));
                }
            },
            Strat::Midpoint => {
                // exact midpoint (l+h)/2: floor and ceil are both within one unit and inside [l,h]
                let sum = l + h;
                let fl = sum.div_euclid(2);
                let ce = fl + sum.rem_euclid(2);
                out.push((fl, ce));
            }
            Strat::Linear => {
                // exact = l + frac*(h-l); admissible: |v - exact| <= 1 and l <= v <= h
                let d = BigInt::from(h - l);
                let e_num = (BigInt::from(l) << r.frac_k) + d * &r.frac_num;
                let two_k = BigInt::one() << r.frac_k;
                let fl = crate::exact::Rat::new(e_num.clone(), two_k.clone()).floor();
                let ce = crate::exact::Rat::new(e_num, two_k).ceil();
                let lo_b: BigInt = ce - BigInt::one();
                let hi_b: BigInt = fl + BigInt::one();
                let lo = lo_b.to_i128().unwrap().max(l);
                let hi = hi_b.to_i128().unwrap().min(h);
                out.push((lo, hi));
            }
        }
    }
    out
}

/// Admissible results (centre, tolerance) for a sorted float lane (all finite).
pub fn allowed_f64(sorted: &[f64], q: f64, s: Strat) -> Vec<(f64, f64)> {
    let n = sorted.len();
    let mut out: Vec<(f64, f64)> = Vec::new();
    for r in readings(q, n) {
        out.extend(allowed_f64_r(sorted, &r, s));
    }
    out
}

/// Admissible float results under ONE reading of the position.
pub fn allowed_f64_r(sorted: &[f64], r: &Reading, s: Strat) -> Vec<(f64, f64)> {
    let mut out: Vec<(f64, f64)> = Vec::new();
    let u = f64::EPSILON / 2.0;
    {
        let (l, h) = (sorted[r.lower], sorted[r.higher]);
        let tol = 4.0 * u * (l.abs() + h.abs()) + f64::MIN_POSITIVE;
        match s {
            Strat::Lower => out.push((l, 0.0)),
            Strat::Higher => out.push((h, 0.0)),
            Strat::Nearest => match r.half {
                Ordering::Less => out.push((l, 0.0)),
                Ordering::Greater => out.push((h, 0.0)),
                Ordering::Equal => {
                    out.push((l, 0.0));
                    out.push((h, 0.0));
                }
            },
            Strat::Midpoint => {
                let mid = (Rat::from_f64(l) + Rat::from_f64(h)) / Rat::from_i(2);
                out.push((mid.to_f64(), tol));
            }
            Strat::Linear => {
                let e = Rat::from_f64(l) + r.frac() * (Rat::from_f64(h) - Rat::from_f64(l));
                out.push((e.to_f64(), tol));
            }
        }
    }
    out
}

/// True when (N-1)q is integral under every admissible reading.
pub fn integral_position(q: f64, n: usize) -> bool {
    readings(q, n).iter().all(|r| r.integral())
}

#[cfg(test)]
mod tests {
    use super::*;
    #[test]
    fn basic() {
        let s = [10i128, 20, 30, 40];
        assert_eq!(allowed_int(&s, 0.5, Strat::Midpoint), vec![(25, 25)]);
        assert_eq!(allowed_int(&s, 0.0, Strat::Lower), vec![(10, 10)]);
        assert_eq!(allowed_int(&s, 1.0, Strat::Higher), vec![(40, 40)]);
        assert_eq!(allowed_int(&s, 0.5, Strat::Linear), vec![(24, 26)]);
        let r = readings(1.0 / 3.0, 4);
        assert!(r.len() >= 1);
    }
}
