#!/usr/bin/env python3
"""Regenerates /verif/MANIFEST.json from the table below. A property is listed as a check
only if its harness binary source exists in mc/src/bin; anything else is listed under
not_applicable with the reason given here."""
import json, os, subprocess

VERIF = os.path.dirname(os.path.abspath(__file__))

E1 = "E1 choice-tree explorer (mc/src/explore.rs, mc/src/report.rs)"
E2 = "E2 stateright explicit-state search over the real Histogram (mc/src/bin/c11.rs)"

P = {
 "C01": dict(engine=E1, technique="stateless DFS over all pivot sequences (pivot hook) x exhaustive enumeration of weak-order patterns, q grid, strategies, element types and layouts, against a sort-based reference model",
   text="Every execution of the real quantile routines over: all weak-order patterns of lane length <= bound (complete for all inputs of that length by the comparison-only argument), two value tables per element type (spread / type extremes), a q grid that sits on, 1 and 2 ulps either side of every index boundary and .5 fraction, all five strategies, i8/u8/i64/u64/N64, all pivot sequences; plus n-D shapes x axes x all layouts with deviation-bounded pivots, plus lanes of 13..96 (250) elements under adversarial pivot policies (recursion depth n-1). Oracle: full sort + both readings of the position. Both build profiles. One lane of 2^24 + 2 elements.",
   note="Complete up to the stated lane length in 1-D; n-D part is exhaustive over layouts x a finite content family, pivots deviation-bounded. q values are a grid, not all of [0,1]. Trusted: the sort-based oracle, ndarray's slicing used to build layouts.", ref="4/C01"),
 "C02": dict(engine=E1, technique="stateless DFS over ALL pivot sequences of the real quickselect (pivot hook) for every weak-order pattern and index / index set up to a length bound; deviation-bounded search above it",
   text="All inputs (by the comparison-only argument) of length <= 7 (8 thorough) for single selection and <= 6 (7) for bulk selection, every index / every subset of indexes in three presentations, under every pivot sequence the generator could produce; value, post-selection ordering and key order are compared with a sort-based reference on every execution (a changed multiset or a modified cell outside the view is counted, not reported: that is C03). Above the bound: all sequences over 3 keys, 3 pivot policies, <= 1 (2) deviations; every length 13..96 (250) x 6 input families x index sets under always-first / always-last / alternating-ends / middle pivots (recursion depth n-1), single and bulk, also on reversed views. The empty array with the empty request; shared ArcArray / borrowing CowArray handles (all pivots; also in the checked build in the quick tier); call histories: every ordered pair of (array, request) combinations back to back on one thread, including rejected requests as the first call.",
   note="Exhaustive within the length bound; beyond it only deviation-bounded. Assumes the pivot hook captures all nondeterminism (self-checked by re-execution).", ref="4/C02"),
 "C03": dict(engine=E1, technique="exhaustive enumeration of layouts (axis permutation x step x offset inside a sentinel parent) x contents x pivot sequences; lane-multiset and guard-cell monitor on the parent buffer before/after every mutating call",
   text="Every mutating routine is run on every view layout of small 1-D..4-D arrays embedded in a sentinel-filled parent; after each execution every lane must hold the same multiset (bit patterns), and every parent cell outside the view must be unchanged; a second ArcArray handle sharing the buffer / an array borrowed by a CowArray must be unchanged; long lanes under adversarial pivot policies. The caller's own view is inspected after every 1-D call (length and contents).",
   note="1-D: complete over weak-order patterns x strides x all pivots; n-D: finite content family x all layouts x deviation-bounded pivots.", ref="4/C03"),
 "C04": dict(engine=E1, technique="exhaustive enumeration of all missing/non-missing masks up to a length bound x strides x offsets x all 14 MaybeNan element types on the real remove_nan_mut, with address-set, multiset (of the returned view), idempotence and determinism oracles (thorough: same enumeration re-run under Miri and AddressSanitizer as secondary monitors)",
   text="Behaviour of NaN removal depends only on the missing-value mask, so all masks of length 0..8 (10) x strides {1,2,3,-1,-2,-3} x offsets x every MaybeNan type is every input up to that length; returned view must be the filter of the input as a multiset, alias only input cells, contain no missing value, be idempotent and deterministic; lanes of n-D arrays along every axis in every layout via map_axis_skipnan_mut / quantile_axis_skipnan_mut. The n-D lanes go through quantile_axis_skipnan_mut with strategy, q and pivot policy rotating with the case.",
   note="Complete up to the mask length bound. Value-level oracle cannot see UB that happens to produce right values; Miri/ASan in the thorough tier watch the same executions for that.", ref="4/C04"),
 "C05": dict(engine=E1, technique="exhaustive enumeration of all arrays over a 7-value float alphabet (NaN, infinities, signed zeros, ties) up to length 5 and of weak-order patterns for integers, x shapes 0-D..4-D incl. zero-length axes x all layouts x static/dynamic dimensionality, against an independent scan",
   text="All float arrays over {NaN,-inf,-1,-0.0,0.0,1,+inf} of length 0..5 (6) in 1-D under several strides, all weak-order integer patterns, and NaN at every position of n-D arrays in every layout, the strict extremum at every position of 3-D/4-D shapes, long arrays up to 1100 (4100) elements: result must designate a true extremum, arg and value forms agree, EmptyInput iff no elements, UndefinedOrder iff a NaN is present. The integer patterns are also run as arrays of NotNone<i32>, the crate's own ordered wrapper.",
   note="Exhaustive over the alphabet and length bound, not over all floats (min/max only compare, so the alphabet covers every comparison outcome class).", ref="4/C05"),
 "C06": dict(engine=E1, technique="exhaustive enumeration of all arrays over small value/weight alphabets (cancelling signs, offsets, non-representable decimals) up to a length bound x shapes x axis x independent layouts of data and weights, against an exact rational-arithmetic oracle with a forward-error bound",
   text="Every data/weight array over the stated alphabets up to length 5 (6), f64/f32/i32/i64, all layout pairs: result compared with the exact rational value (integers: exact equality incl. the type's own division, also for the axis forms; floats: |err| <= c*n*u*sum|terms|); a wide-magnitude alphabet 1e-300..1e300 for mean / harmonic / geometric mean. Axis forms on shapes up to 5-D; data and weights that are views of one buffer (different strides, transpose, overlapping, a lane of the matrix as axis weights). Narrow integers (i8 / u8): per-axis forms against the whole-array routine wherever the latter returns on every lane. Stride-0 broadcast views of 2^24 + 1 elements.",
   note="Exhaustive over an alphabet, not over all floats; overflow/underflow regimes outside the alphabet. Bound constants are textbook forward-error bounds with margin >= 4 over the worst observed ratio (reported in evidence).", ref="4/C06"),
 "C07": dict(engine=E1, technique="exhaustive enumeration over data x weight x ddof x order x offset alphabets against exact rational arithmetic with forward-error bounds of the documented algorithms (corrected two-pass moments, West's weighted variance)",
   text="All data arrays over the alphabet at offsets 0..1e8 up to length 5 (6), all weight vectors over {0,.25,1,3} with positive total, ddof {0,.5,1}, orders 0..8, a size sweep up to 1100 (4100) elements and extreme scales: central moments, weighted variance/std, skewness, kurtosis and axis forms compared with exact rational values. Extreme weight ratios (weights 1e-100..1e20 next to data 1e30 / 1e200; f32 analogue) against the exact value with the one-pass algorithm's bound, and one negative weight with positive running sums. Bulk central moments at every cut-off 0..4; whole-array weighted variance on n-D arrays.",
   note="Exhaustive over an alphabet; bounds as stated in DESIGN 4/C07; worst observed ratio reported in evidence.", ref="4/C07"),
 "C08": dict(engine=E1, technique="exhaustive enumeration of all small matrices over a value alphabet (x offsets, ddof, layouts) plus structured larger families, against exact rational covariance/correlation with forward-error bounds, and metamorphic affine/sign invariances",
   text="All (r,o) matrices up to 3x3 / 2x4 over {-1,0,.5,2} at offsets {0,1e6}, ddof in {0,1,.5,o-.25}, C/F/transposed/stepped/reversed layouts, f64 and f32, and structured families up to 8x64; Pearson invariance under rescaling by 2, .5x+1, 3x-10, 1e-9, 1e-13, 1e9 and sign flips.",
   note="Exhaustive over an alphabet for small sizes; structured (not exhaustive) for large sizes.", ref="4/C08"),
 "C09": dict(engine=E1, technique="exhaustive enumeration of all operand pairs over a 4-value alphabet up to length 4 x all pairs of layouts x ownership kinds, against a logical-index reference loop with exact (BigInt) arithmetic",
   text="Every pair of arrays over the alphabet, every pairing of layouts for the two operands (1-D, 2-D complete; covering in 3-D/4-D), owned/view/view_mut/Arc/Cow operands, i32/i64/f64/BigInt: all ten measures compared with exact values; symmetry and identity laws; operands aliasing one buffer (different strides, transpose, overlapping windows). Infinite elements and overflowing squares (all pairs of length <= 3 over {0,1,+-BIG,+-inf}) against the IEEE value of the documented formulas. Every pair of arrays of shape (2,3), (3,2), (1,4), (2,1,3) over two values. A second peak value per type that f32 cannot hold; stride-0 broadcast operands of 65535..70000 and 2^24 + 1 elements.",
   note="Exhaustive over an alphabet and the layout generator's space.", ref="4/C09"),
 "C10": dict(engine=E1, technique="exhaustive enumeration of p, q vectors over an alphabet incl. zeros and NaN x independent layouts, against exactly summed per-term f64 values; algebraic identities checked on the same cases",
   text="All p, q of length 1..5 over {0,.1,.25,.5,1,2,NaN} and all normalised vectors over eighths up to length 4, all layout pairs in 1-D..3-D, a size sweep up to 1100 (4100), tiny entries, aliasing operands, f64/f32. The alphabet also holds -0.0 and a subnormal (1e-310 / 1e-40); the KL quotient of the reference is formed in the element type.",
   note="Exhaustive over an alphabet; ln evaluated in f64 by the oracle per term (the property's own 'within roundoff of the exactly summed terms').", ref="4/C10"),
 "C11": dict(engine=E2, technique="explicit-state BFS (stateright) over all observation histories up to a depth, each transition executing the real Histogram::add_observation; states canonicalised on (grid, counts); reference cell map and bulk-vs-incremental differential evaluated on every transition before deduplication",
   text="All grids of 1..3 axes from a menu of edge sets (incl. zero-bin, unsorted, duplicate edges), all insertion sequences of observations from every region class (below, on each edge, inside each bin, above) up to depth 7-8 (9-10; 5 (7) for three-axis grids): counts equal the reference map after every step, rejected inserts change nothing, counts shape equals grid shape, matrix form equals incremental form in both memory orders. Edge lists reach Edges through Vec, fresh Array1 and narrowed / stepped owned Array1, rotating per axis. Grids with a 12-edge axis (depth 4/3/2). E1 part: every ordered pair of five short edge lists x every integer point of (-1..9)^2 as an owned array, a reversed view and a stepped view, one insert into a fresh histogram.",
   note="Exhaustive to the stated depth over the action menu; canonicalisation is exact because Histogram has only (grid, counts) as state.", ref="4/C11"),
 "C12": dict(engine=E1, technique="exhaustive enumeration of all small data sets over awkward-value alphabets x 5 strategies, plus every n up to 10^4 over a (min,max,quartile) menu, with a termination watchdog; edge laws checked on the real build()/n_bins()",
   text="All arrays of length 1..6 over integer and N64 alphabets, every n <= 2000 (10^4) for Sqrt/Rice/Sturges and n <= 600 + sparse for FD/Auto over a menu of (min,max) pairs incl. adjacent floats and huge offsets; integer data in the upper part of the type range (u8, i16, i32, u32); GridBuilder + histogram totals in 1..3 columns. Pairs whose range added back to the minimum overshoots the maximum; integer data with an IQR of one unit; the last bin must start at or below the maximum (tolerance-free); a strategy accepting data with a non-positive width is a violation. Every small data set is also presented as reversed / stepped views of a sentinel-filled parent and must give the same strategy (verdict, width, minimum, maximum) as the owned array.",
   note="Exhaustive over the alphabet / parameter menu; a stalled call is reported by a watchdog after 60 s.", ref="4/C12"),
 "C13": dict(engine=E1, technique="exhaustive enumeration of every edge collection up to 5 elements (complete by the comparison-only argument) x all probe classes, against a linear-scan reference; all Grid index tuples",
   text="Every sequence of length 0..6 (7) over 6 values, via From<Vec> and From<Array1> (fresh, narrowed, stepped, reversed owned arrays), probes below/on/between/above every edge, i32 and N64; Bins and Grid accessors cross-checked with points presented as owned arrays and reversed / stepped views. NotNone<i32> (the crate's own ordered wrapper) as element type, judged through a key projection. Grids assembled from pushed Vecs (spare capacity).",
   note="Complete up to the size bound.", ref="4/C13"),
 "C14": dict(engine=E1, technique="exhaustive enumeration of missing-value masks x weak-order patterns x axes x layouts x pivot sequences; oracle = filter then plain reference",
   text="Every mask x every pattern on the remaining elements up to length 5 in 1-D (all pivots), n-D shapes x every axis x all layouts; f64, f32, Option<i32>; all skip-NaN entry points. After one pivot sequence of the first call per case the same call and a per-axis fold are repeated on the array as the first call left it. The per-axis skip-NaN fold is compared as a sequence (index order), not as a multiset.",
   note="Complete up to the 1-D bound; n-D exhaustive over layouts x finite content family.", ref="4/C14"),
 "C15": dict(engine=E1, technique="exhaustive enumeration of all weak-order patterns up to length 8 (9) x every pivot position x view strides on the real partition_mut, against a rank-count reference; both build profiles",
   text="All inputs (comparison-only argument) of length 1..8, every pivot position, strides {1,2,-1,3,-2}, three element types incl. type extremes and a non-Copy type; long arrays up to 2100 (4200) elements: returned index == number of strictly smaller elements, partition post-condition, no panic (multiset and guard cells are observed and counted; reporting them is C03's). Fourth element type: NotNone<i32>, the crate's own hand-written ordered wrapper. Fifth element type: [i64; 3] (wider than two machine words).",
   note="Complete up to the length bound.", ref="4/C15"),
 "C16": dict(engine=E1, technique="stateless DFS over all pivot sequences for every in-range and out-of-range request on arrays of length 0..6, in builds with and without debug assertions / overflow checks; oracle: must / must not unwind",
   text="Every weak-order pattern of length 0..6 (7), get/partition at every in-range position and six out-of-range ones, bulk selection with out-of-range entries mixed in at every position; request lists of 33..130 entries; Bins::index and Grid::index over all small edge sets and index tuples incl. wrong arity and positions next to usize::MAX and 2^63. Call histories: every sequence of 2 calls from a menu of 80 and every sequence of 3 bulk calls on one thread (the verdict of a call must not depend on earlier calls). Edges reach Bins / Grid through Vec, fresh Array1 and narrowed Array1 constructors.",
   note="Complete up to the length bound, both profiles in every tier.", ref="4/C16"),
 "C17": dict(engine=E1, technique="exhaustive enumeration of the decision table routine x emptiness x shape relation x q validity x axis x layout on the real routines, against a hand-written decision function",
   text="Every Result-returning public routine of the anchored files x first-input shapes x second-input relation x q lists x axes x element types x layouts: variant and payload must match the decision function; never a panic; zero total weight on non-empty inputs is not an error. The 20 two-input routines again with both operands windows of ONE array (same start address, same strides, different extents; an array against itself).",
   note="Full table over the stated shape menu.", ref="4/C17"),
 "C18": dict(engine=E1, technique="exhaustive enumeration of request lists (all lists of length 0..4 over a q pool, one of 32) x patterns x layouts x pivot sequences; every bulk execution compared with every single-item execution",
   text="Bulk quantiles vs single quantiles, bulk selection vs single selection, central_moments vs central_moment bit for bit, axis forms of the weighted family vs whole-array routine per lane; 2-3 long lanes per bulk call; long lanes under adversarial pivot policies. Axis forms on shapes up to 5-D, ddof {0, .5, 1}, equal non-unit weights. For n <= 4 every request list of n and n+1 positions with repeats. Per-axis forms must be identical (bit for bit) to the whole-array routine on the lane; strided 2-D inputs for the moments. Every 3x3 matrix over three values with each of its own rows / columns as the weights of the axis forms (per-axis element vs whole-array routine on owned copies and on the lane view).",
   note="Complete over the request-list space stated; pivots all for N<=4, deviation-bounded above.", ref="4/C18"),
 "C19": dict(engine=E1, technique="exhaustive enumeration of patterns x all ordered q pairs of the grid x strategies x pivot sequences; oracle-free order laws (monotonicity, bounds, strategy ordering, permutation and relabelling invariance)",
   text="Every multiset of ranks up to size 5 (6) x every arrangement, i8/i64/N64 tables (spread, extremes, 2x+1, beyond 2^53), all q pairs from the boundary grid, both profiles. Short bulk requests: every list of one or two (half of three) q values from seven, in any order, for n = 2..9. Fractional NotNone<N64> lanes through quantile_mut and float lanes (ties in adjacent pairs, NaNs interleaved) through quantile_axis_skipnan_mut. One lane of 2^24 + 2 elements; Option<i32> lanes with neighbours more than 2^24 apart through the skip-NaN entry point.",
   note="Complete up to the length bound over the q grid.", ref="4/C19"),
 "C20": dict(engine=E1, technique="exhaustive enumeration of every representation (all layouts x ownership kinds x static/dynamic dimensionality) of canonical arrays for every public routine; differential against the canonical result / exact oracle",
   text="For each routine and each canonical array in 1-D..4-D: every layout of the generator, owned/view/view_mut/Arc/Cow, IxN/IxDyn; second operands and weights in a different (when possible contiguous) memory order. Fallible calls (empty axes, invalid q, empty request lists) must have the same outcome for dynamic / static / shared / column-major / copy-on-write representations; binary routines on two views of one buffer must equal the same call on separate copies. Request lists handed over as reversed views. All five bin-building strategies on every 1-D representation; GridBuilder with FreedmanDiaconis / Auto on every 2-D one.",
   note="Exhaustive over the representation generator for fixed canonical contents.", ref="4/C20"),
}

def main():
    hook_commits = subprocess.run(["git", "-C", "/repo", "log", "--format=%H", "--grep=^verif:"], stdout=subprocess.PIPE, text=True).stdout.split()
    checks, na = [], []
    for pid in sorted(P):
        p = P[pid]
        src = os.path.join(VERIF, "mc", "src", "bin", pid.lower() + ".rs")
        if not os.path.exists(src):
            na.append({"property_id": pid, "reason": "harness not built yet in this round (planned: %s)" % p["technique"]})
            continue
        checks.append({
            "property_id": pid,
            "quick_cmd": "./check %s --tier quick" % pid,
            "thorough_cmd": "./check %s --tier thorough" % pid,
            "evidence_file": "/verif/evidence/%s.json" % pid,
            "replay_cmd_template": "./check %s --replay {path}" % pid,
            "engine": p["engine"],
            "level_claimed": {"category": "model_checking", "text": p["text"], "design_ref": "DESIGN.md section " + p["ref"]},
            "level_note": p["note"],
            "technique": p["technique"],
        })
    m = {
        "version": 1,
        "setup_cmd": "./setup.sh",
        "hooks": {
            "guard": "cargo feature verif-hooks",
            "enable": "the harness crate /verif/mc depends on /repo by path with features = [\"verif-hooks\"]; ./check rebuilds it from /repo's working tree on every run",
            "baseline_off_cmd": "cd /repo && cargo nextest run --workspace --no-fail-fast --tool-config-file pb:/w/lib/nextest.toml --profile pb --test-threads 8 --offline",
            "source_commits": hook_commits,
            "add_only": True,
        },
        "engines": [
            {"name": "E1", "path": "mc/src/explore.rs", "serves_properties": [c for c in sorted(P) if c != "C11"], "kind_free_text": "stateless depth-first exploration by re-execution of the real code over a choice tree: input choices enumerated completely, pivot choices (through the verif-hooks pivot hook) either completely or within a deviation bound from a pivot policy"},
            {"name": "E2", "path": "mc/src/bin/c11.rs", "serves_properties": ["C11"], "kind_free_text": "stateright 0.31 breadth-first explicit-state search; every transition executes the real Histogram::add_observation"},
        ],
        "checks": checks,
        "notes": "All checks: exit 0 = held on everything explored, exit 1 + VIOLATION line = violation, exit 2 = machinery failure. Every check runs its harness in two build profiles (release; release + debug assertions + overflow checks), except C08 whose quick tier runs release only and C02 whose quick tier runs the checked build on two sub-harnesses. known_findings.json lists recorded defects (open: K1 for C01/C19, K2 for C17) and repaired ones (fixed: D1-D7). seeded/ holds 469 property-breaking changes with demonstrations; seeded/RESULTS.md records which checks detect which. COVERAGE.md lists every sub-harness with its bounds and measured counts.",
        "not_applicable": na,
    }
    with open(os.path.join(VERIF, "MANIFEST.json"), "w") as f:
        json.dump(m, f, indent=1)
        f.write("\n")
    print("checks:", [c["property_id"] for c in checks], "not_applicable:", [n["property_id"] for n in na])

main()
