#!/bin/sh
# Builds every harness binary in both build profiles, offline, from files on disk only.
set -e
cd "$(dirname "$0")/mc"
export CARGO_NET_OFFLINE=true
[ -f Cargo.lock ] || cp /repo/Cargo.lock Cargo.lock
cargo build --offline --profile release --bins
cargo build --offline --profile checked --bins
