#!/usr/bin/env python3
"""Secondary monitors for C04 (thorough tier only; called by ./check C04 --tier thorough).

Runs the C04 monitor program (/verif/monitor: the exhaustive enumeration of missing-value masks
x strides x element types on remove_nan_mut, plus lanes of 2-D arrays through
map_axis_skipnan_mut / quantile_axis_skipnan_mut, with every not-NaN typed value *used through
Deref*) under
  (a) Miri (cargo +nightly miri run), at a reduced bound, and
  (b) AddressSanitizer (-Zsanitizer=address on nightly), at the full bound.
A report of undefined behaviour / a memory error is a violation (exit 1, VIOLATION line);
a tool that cannot be run is a machinery failure (exit 2), never a verdict.
"""
import json, os, subprocess, sys, time

VERIF = os.path.dirname(os.path.abspath(__file__))
MON = os.path.join(VERIF, "monitor")
EVDIR = os.environ.get("NSMC_EVIDENCE_DIR", os.path.join(VERIF, "evidence"))


def run(cmd, env, timeout):
    t0 = time.time()
    try:
        p = subprocess.run(cmd, cwd=MON, env=env, stdout=subprocess.PIPE, stderr=subprocess.STDOUT, text=True, timeout=timeout)
        return p.returncode, p.stdout, time.time() - t0
    except subprocess.TimeoutExpired as e:
        return 124, (e.stdout or "") + "\nTIMEOUT", time.time() - t0


def main():
    base = dict(os.environ)
    base["CARGO_NET_OFFLINE"] = "true"
    if not os.path.exists(os.path.join(MON, "Cargo.lock")):
        subprocess.run(["cp", "/repo/Cargo.lock", os.path.join(MON, "Cargo.lock")])
    out = {"tools": []}
    rc_final = 0
    replay_dir = os.path.join(VERIF, "replays")
    os.makedirs(replay_dir, exist_ok=True)
    # (a) Miri, reduced bound
    env = dict(base)
    env["MIRIFLAGS"] = "-Zmiri-disable-isolation"
    env["C04_MONITOR_MAXLEN"] = "4"
    env["C04_MONITOR_2D_STEP"] = "409"
    env["CARGO_TARGET_DIR"] = os.path.join(MON, "target")
    rc, text, wall = run(["cargo", "+nightly", "miri", "run", "--offline"], env, 3600)
    line = [l for l in text.splitlines() if l.startswith("C04-MONITOR")]
    ub = "Undefined Behavior" in text or "error: unsupported operation" in text
    entry = {"tool": "miri", "exit": rc, "wall_s": round(wall, 1), "summary": line[-1] if line else "", "bound": "masks of length 0..=4 x strides {1,2,-1,-2} x f64,f32,Option<u8>,Option<i32>,Option<i128>,Option<N64>; every 409th mask of a 3x4 array x C/F order x both axes"}
    if rc == 0 and line:
        entry["verdict"] = "no undefined behaviour reported"
    elif ub:
        entry["verdict"] = "UNDEFINED BEHAVIOUR REPORTED"
        path = os.path.join(replay_dir, "C04-miri.txt")
        open(path, "w").write(text[-20000:])
        print("VIOLATION property=C04 replay=%s" % path)
        rc_final = 1
    else:
        sys.stderr.write(text[-3000:])
        print("MACHINERY: Miri could not be run (exit %s)" % rc, file=sys.stderr)
        sys.exit(2)
    out["tools"].append(entry)
    # (b) AddressSanitizer, full bound
    env = dict(base)
    env["RUSTFLAGS"] = "-Zsanitizer=address"
    env["C04_MONITOR_MAXLEN"] = "8"
    env["C04_MONITOR_2D_STEP"] = "1"
    env["CARGO_TARGET_DIR"] = os.path.join(MON, "target-asan")
    rc, text, wall = run(["cargo", "+nightly", "run", "--offline", "--target", "x86_64-unknown-linux-gnu"], env, 3600)
    line = [l for l in text.splitlines() if l.startswith("C04-MONITOR")]
    asan = "AddressSanitizer" in text
    entry = {"tool": "AddressSanitizer", "exit": rc, "wall_s": round(wall, 1), "summary": line[-1] if line else "", "bound": "masks of length 0..=8 x strides {1,2,-1,-2} x 6 element types; all 4096 masks of a 3x4 array x C/F order x both axes"}
    if rc == 0 and line:
        entry["verdict"] = "no memory error reported"
    elif asan:
        entry["verdict"] = "MEMORY ERROR REPORTED"
        path = os.path.join(replay_dir, "C04-asan.txt")
        open(path, "w").write(text[-20000:])
        print("VIOLATION property=C04 replay=%s" % path)
        rc_final = 1
    else:
        sys.stderr.write(text[-3000:])
        print("MACHINERY: the AddressSanitizer build could not be run (exit %s)" % rc, file=sys.stderr)
        sys.exit(2)
    out["tools"].append(entry)
    os.makedirs(os.path.join(EVDIR, ".parts"), exist_ok=True)
    json.dump(out, open(os.path.join(EVDIR, ".parts", "C04.monitors.json"), "w"), indent=1)
    sys.exit(rc_final)


if __name__ == "__main__":
    main()
