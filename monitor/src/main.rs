//! Secondary monitor for C04 (thorough tier): the same exhaustively enumerated executions of
//! remove_nan_mut / map_axis_skipnan_mut / quantile_axis_skipnan_mut, run under Miri or
//! AddressSanitizer, which watch for undefined behaviour a value-level oracle cannot see.
//! Every value handed out as a not-NaN typed reference is *used through Deref* here (under the
//! value-level harness that would itself be undefined behaviour if the crate were wrong; under
//! Miri/ASan it is exactly what we want to observe).
use ndarray::prelude::*;
use ndarray::Slice;
use ndarray_stats::interpolate::Lower;
use ndarray_stats::{MaybeNan, MaybeNanExt, QuantileExt};
use noisy_float::types::{n64, N64};

trait MN: MaybeNan + Clone {
    fn mk(missing: bool, k: usize) -> Self;
    fn use_nn(x: &Self::NotNan) -> i128;
}
macro_rules! fl {
    ($t:ty) => {
        impl MN for $t {
            fn mk(m: bool, k: usize) -> Self {
                if m { <$t>::NAN } else { k as $t + 0.5 }
            }
            fn use_nn(x: &Self::NotNan) -> i128 {
                x.raw() as i128
            }
        }
    };
}
fl!(f64);
fl!(f32);
macro_rules! op {
    ($t:ty) => {
        impl MN for Option<$t> {
            fn mk(m: bool, k: usize) -> Self {
                if m { None } else { Some(k as $t + 1) }
            }
            fn use_nn(x: &Self::NotNan) -> i128 {
                // Deref of NotNone: undefined behaviour if the wrapped option is None
                **x as i128
            }
        }
    };
}
op!(u8);
op!(i32);
op!(i128);
impl MN for Option<N64> {
    fn mk(m: bool, k: usize) -> Self {
        if m { None } else { Some(n64(k as f64)) }
    }
    fn use_nn(x: &Self::NotNan) -> i128 {
        (**x).raw() as i128
    }
}

fn run<A: MN>(maxlen: usize, strides: &[isize]) -> (u64, i128)
where
    A::NotNan: Ord + Clone,
{
    let mut cases = 0u64;
    let mut acc = 0i128;
    for n in 0..=maxlen {
        for mask in 0u32..(1 << n) {
            for &st in strides {
                let span = if n == 0 { 0 } else { (n - 1) * st.unsigned_abs() + 1 };
                let off = span + 2;
                let mut parent: Array1<A> = Array1::from_elem(2 * off + span, A::mk(mask % 2 == 0, 99));
                {
                    let mut v = parent.slice_axis_mut(Axis(0), Slice::new(off as isize, Some((off + span) as isize), st));
                    for i in 0..n {
                        v[i] = A::mk(mask >> i & 1 == 1, i);
                    }
                    let r = A::remove_nan_mut(v);
                    let want = n - mask.count_ones() as usize;
                    assert_eq!(r.len(), want, "length");
                    for x in r.iter() {
                        acc += A::use_nn(x);
                    }
                }
                cases += 1;
            }
        }
    }
    // lanes of a 2-D array along both axes, two layouts
    let step2d: usize = std::env::var("C04_MONITOR_2D_STEP").ok().and_then(|s| s.parse().ok()).unwrap_or(37);
    for mask in (0u32..4096).step_by(step2d) {
        for f_order in [false, true] {
            for ax in 0..2 {
                let data: Vec<A> = (0..12).map(|i| A::mk(mask >> i & 1 == 1, i)).collect();
                let mut a = Array2::from_shape_vec((3, 4), data).unwrap();
                if f_order {
                    let mut b = Array2::from_elem((4, 3), A::mk(false, 0)).reversed_axes();
                    b.assign(&a);
                    a = b;
                }
                let r = a.map_axis_skipnan_mut(Axis(ax), |lane| lane.iter().map(|x| A::use_nn(x)).sum::<i128>());
                acc += r.iter().sum::<i128>();
                let mut inv = a.clone();
                inv.invert_axis(Axis(ax));
                let q = inv.quantile_axis_skipnan_mut(Axis(ax), n64(0.5), &Lower).unwrap();
                acc += q.len() as i128;
                cases += 2;
            }
        }
    }
    (cases, acc)
}

fn main() {
    let maxlen: usize = std::env::var("C04_MONITOR_MAXLEN").ok().and_then(|s| s.parse().ok()).unwrap_or(4);
    let strides = [1isize, 2, -1, -2];
    let mut total = 0u64;
    let mut acc = 0i128;
    macro_rules! go {
        ($t:ty) => {{
            let (c, a) = run::<$t>(maxlen, &strides);
            total += c;
            acc += a;
        }};
    }
    go!(f64);
    go!(f32);
    go!(Option<u8>);
    go!(Option<i32>);
    go!(Option<i128>);
    go!(Option<N64>);
    println!("C04-MONITOR cases={} checksum={}", total, acc);
}
